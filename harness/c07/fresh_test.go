package c07

import (
	"strings"
	"fmt"
	"os"
	"sort"
	"sync"

	"verif/harness/vlib"
	"verif/harness/vlib/cbormut"
	"verif/harness/vlib/netsim"
	"verif/harness/vlib/proto"
)

// P7 - per-recipient freshness. When a party sends private (unicast) messages of one round to
// several recipients, a high-entropy value (byte string of at least 16 bytes) that sits at the same
// place of two of those messages is either a PUBLIC value the protocol deliberately repeats (a
// verification vector, a commitment to a common value) or two samples that are meant to be
// independent (a share of a fresh polynomial per recipient, a pairwise contribution, a pad). A
// sample that is not drawn afresh for its recipient but copied from the one drawn for another
// recipient does not come from the party's random source.
//
// The places where the unchanged tree repeats a value across recipients are listed in
// mayRepeatAcrossRecipients (established with C07_CALIBRATE, TestCalibrate prints them as MAYREPEAT
// lines; a repeated public value repeats in every run, so one run per scenario lists them all).
// Everywhere else two recipients receiving the same >= 16-byte value is a violation.
var mayRepeatAcrossRecipients = map[string]bool{}

func init() {
	for _, k := range mayRepeatList {
		mayRepeatAcrossRecipients[k] = true
	}
}

type repeat struct {
	key, detail string
}

// repeatedAcrossRecipients lists the (scenario|round|leaf class) places at which one sender gave
// two recipients the same >= 16-byte value in one round of unicasts.
func repeatedAcrossRecipients(sc *scenario, log []*netsim.Msg) []repeat {
	type grp struct {
		from  proto.ID
		round string
	}
	groups := map[grp][]*netsim.Msg{}
	for _, m := range log {
		if m.Kind != netsim.Unicast {
			continue
		}
		g := grp{m.From, m.Round()}
		groups[g] = append(groups[g], m)
	}
	seen := map[string]bool{}
	var out []repeat
	for g, ms := range groups {
		if len(ms) < 2 {
			continue
		}
		// leaf class -> value -> first recipient
		vals := map[string]map[string]proto.ID{}
		for _, m := range ms {
			root, err := cbormut.Parse(m.Body)
			if err != nil {
				continue
			}
			root.OpenNested()
			leaves, _ := cbormut.Walk(root)
			mine := map[string]bool{} // a value repeated inside ONE message is not a cross-recipient repeat
			for _, l := range leaves {
				if l.Node.Major != 2 || len(l.Node.Bytes) < 16 {
					continue
				}
				k := l.Class + "\x00" + string(l.Node.Bytes)
				if mine[k] {
					continue
				}
				mine[k] = true
				if vals[l.Class] == nil {
					vals[l.Class] = map[string]proto.ID{}
				}
				if first, dup := vals[l.Class][string(l.Node.Bytes)]; dup && first != m.To {
					key := sc.name + "|" + g.round + "|" + l.Class
					if !seen[key] {
						seen[key] = true
						out = append(out, repeat{key, fmt.Sprintf("party %d sent the same %d-byte value %s at %s to parties %d and %d in round %s",
							g.from, len(l.Node.Bytes), vlib.Hex(l.Node.Bytes), l.Path, first, m.To, g.round)})
					}
				} else if !dup {
					vals[l.Class][string(l.Node.Bytes)] = m.To
				}
			}
		}
	}
	sort.Slice(out, func(i, j int) bool { return out[i].key < out[j].key })
	return out
}

var (
	calMu   sync.Mutex
	calSeen = map[string]bool{}
)

// checkRecipientFreshness asserts P7 on one honest run.
func checkRecipientFreshness(t vlib.Fataler, test string, sc *scenario, log []*netsim.Msg, c caseParams) {
	reps := repeatedAcrossRecipients(sc, log)
	calibrating := os.Getenv("C07_CALIBRATE") != ""
	for _, r := range reps {
		if mayRepeatAcrossRecipients[r.key] || publicModulusPlace(r.key) {
			continue
		}
		if calibrating {
			calMu.Lock()
			if !calSeen[r.key] {
				calSeen[r.key] = true
				fmt.Printf("MAYREPEAT\t%q,\t// %s\n", r.key, r.detail)
			}
			calMu.Unlock()
			continue
		}
		t.Fatalf("P7 %s: %s - a per-recipient value is not drawn afresh from the sender's random source (place %s is not among the public values the protocol repeats) [%v]",
			sc.name, r.detail, r.key, c)
	}
	if len(reps) > 0 {
		vlib.Class(test, "p7=public-repeats-seen")
	}
	vlib.Class(test, "p7=asserted")
}

// publicModulusPlace: Paillier ciphertexts, nonces and the residues inside the CGGMP21 proofs carry
// a self-description of their ring (the modulus N or N^2 of the SENDER's or the recipient's public
// key: `.../modulus/modulus/natBytes`, `.../n/natPlus/natBytes`). That is public key material which
// every message under the same key repeats by construction - never a sampled value. Measured with
// C07_CALIBRATE on the cggmp21 scenario: these are the only places that repeat across recipients.
func publicModulusPlace(key string) bool {
	return strings.HasSuffix(key, "/modulus/modulus/natBytes") || strings.HasSuffix(key, "/n/natPlus/natBytes")
}
