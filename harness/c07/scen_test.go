package c07

import (
	"bytes"
	"context"
	"fmt"
	"io"
	"os"
	"sort"
	"sync"

	"github.com/bronlabs/bron-crypto/pkg/base/algebra"
	"github.com/bronlabs/bron-crypto/pkg/base/curves/k256"
	"github.com/bronlabs/bron-crypto/pkg/base/serde"
	"github.com/bronlabs/bron-crypto/pkg/mpc/aor"
	"github.com/bronlabs/bron-crypto/pkg/mpc/session"
	"github.com/bronlabs/bron-crypto/pkg/mpc/sharing/accessstructures"
	"github.com/bronlabs/bron-crypto/pkg/mpc/zero/hjky"
	"github.com/bronlabs/bron-crypto/pkg/network"
	"github.com/bronlabs/bron-crypto/pkg/network/exchange"
	"github.com/bronlabs/bron-crypto/pkg/proofs/sigma/compiler/fiatshamir"
	"github.com/bronlabs/bron-crypto/pkg/proofs/sigma/compiler/fischlin"
	"github.com/bronlabs/bron-crypto/pkg/transcripts/hagrid"
	"verif/harness/vlib"
	"verif/harness/vlib/policy"
	"verif/harness/vlib/proto"
)

// partyBuilder constructs the runner of one party of a prepared run around the given reader.
type partyBuilder func(id proto.ID, prng io.Reader) (network.Runner[any], error)

// A scenario is one protocol in one small configuration on FIXED key material (dealt once per
// process from a constant seed): only the session context seed, the message (from a small fixed
// set) and the per-party random streams vary between runs, so a secret that was derived from
// the key, the message or the session alone would repeat.
type scenario struct {
	name    string
	family  string // protocol (key of the campaign-wide seen-set, part of the NT descriptor)
	weight  int    // quick-tier draw weight (0 = thorough only)
	parties []proto.ID
	// positions: the parties that are specified to sample (all of them, except parties that only
	// receive, e.g. a next-only holder of a redistribution).
	positions []proto.ID
	msgs      [][]byte
	prepare   func(ctxSeed uint64, msg []byte) (partyBuilder, error)
	// joint extracts from the outputs of an honest run the named values that are meant to be
	// random (must change with any party's stream) and those that must not change (public key).
	joint func(outs map[proto.ID]any, msg []byte) (random, fixed map[string][]byte, err error)
	// encode gives the bytes of one party's output (replay determinism).
	encode func(id proto.ID, out any) ([]byte, error)
	facts
}

// facts are the empirical properties of the UNCHANGED tree, measured with TestCalibrate
// (C07_CALIBRATE=1; >= 50 identical-stream runs per scenario) and frozen in frozenFacts below.
type facts struct {
	// sequential: identical streams gave byte-identical wire logs (as multisets) and outputs
	// in every calibration run: replay determinism (P5) is asserted.
	sequential bool
	// firstDet: every party's first-round message was identical in every calibration run:
	// locality (P2) is asserted.
	firstDet bool
	// consDet: every party's total byte consumption was identical in every calibration run:
	// "a starved party does not complete" (P4) is asserted; otherwise only "no panic".
	consDet bool
}

var defaultMsgs = [][]byte{
	[]byte("c07 message number one"),
	[]byte("c07 message number two, somewhat longer than the first one, to cross a hash block boundary."),
	{0x00},
}

func thr23() (*policy.Policy, []uint64) {
	return &policy.Policy{Family: policy.Threshold, N: 3, T: 2}, []uint64{1, 2, 3}
}

func cnf3() (*policy.Policy, []uint64) {
	return &policy.Policy{Family: policy.CNF, N: 3, MUS: []uint64{1, 2, 4}}, []uint64{7, 3, 40}
}

func mustAC(p *policy.Policy, raw []uint64) accessstructures.Monotone {
	ac, err := policy.Build(p, raw)
	if err != nil {
		panic("harness: building access structure: " + err.Error())
	}
	return ac
}

func agree(vals map[proto.ID][]byte, what string) ([]byte, error) {
	var ref []byte
	first := true
	for id, v := range vals {
		if first {
			ref, first = v, false
		} else if !bytes.Equal(ref, v) {
			return nil, fmt.Errorf("honest parties disagree on %s (party %d)", what, id)
		}
	}
	return ref, nil
}

// shardJoint: the public key and every party's private share.
func shardJoint(g proto.Group, pkRandom bool) func(outs map[proto.ID]any, _ []byte) (map[string][]byte, map[string][]byte, error) {
	return func(outs map[proto.ID]any, _ []byte) (map[string][]byte, map[string][]byte, error) {
		random, fixed := map[string][]byte{}, map[string][]byte{}
		pks := map[proto.ID][]byte{}
		for id, o := range outs {
			info, err := g.Info(o)
			if err != nil {
				return nil, nil, fmt.Errorf("party %d: %w", id, err)
			}
			pks[id] = info.PK
			var b []byte
			for _, x := range info.Share {
				b = append(b, x.FillBytes(make([]byte, 48))...)
			}
			random[fmt.Sprintf("share/%d", id)] = b
		}
		pk, err := agree(pks, "the public key")
		if err != nil {
			return nil, nil, err
		}
		if pkRandom {
			random["pk"] = pk
		} else {
			fixed["pk"] = pk
		}
		return random, fixed, nil
	}
}

func shardEncode(g proto.Group) func(proto.ID, any) ([]byte, error) {
	return func(_ proto.ID, o any) ([]byte, error) {
		info, err := g.Info(o)
		if err != nil {
			return nil, err
		}
		return info.CBOR, nil
	}
}

// ---- HJKY zero sharing has no runner in the library: a two-line one over the library's exchange helpers

type hjkyOut struct {
	share [][]byte
	vv    []byte
}

type hjkyRunner[G algebra.PrimeGroupElement[G, S], S algebra.PrimeFieldElement[S]] struct {
	p      *hjky.Participant[G, S]
	quorum network.Quorum
}

func (r *hjkyRunner[G, S]) Run(ctx context.Context, rt *network.Router, _ network.NotificationCallback) (any, error) {
	b, u, err := r.p.Round1()
	if err != nil {
		return nil, err
	}
	bIn, uIn, err := exchange.Exchange(ctx, rt, "C07HJKYRound1", r.quorum, b, u)
	if err != nil {
		return nil, err
	}
	share, vv, err := r.p.Round2(bIn, uIn)
	if err != nil {
		return nil, err
	}
	out := &hjkyOut{}
	for _, x := range share.Value() {
		out.share = append(out.share, x.Bytes())
	}
	if out.vv, err = serde.MarshalCBOR(vv); err != nil {
		return nil, err
	}
	return out, nil
}

var (
	scOnce sync.Once
	scList []*scenario
)

func allScenarios() []*scenario {
	scOnce.Do(func() {
		scList = buildScenarios()
		for _, sc := range scList {
			f, ok := frozenFacts[sc.name]
			if !ok && os.Getenv("C07_CALIBRATE") == "" {
				panic("harness: no frozen facts for scenario " + sc.name)
			}
			sc.facts = f
			if sc.msgs == nil {
				sc.msgs = [][]byte{nil}
			}
			if sc.positions == nil {
				sc.positions = sc.parties
			}
		}
	})
	return scList
}

func scenarioByName(name string) *scenario {
	for _, sc := range allScenarios() {
		if sc.name == name {
			return sc
		}
	}
	return nil
}

func buildScenarios() []*scenario {
	var out []*scenario
	k := proto.GroupByName("k256")

	// --- session set-up: the session identifier and the pairwise seeds are the joint values
	{
		ids := []proto.ID{3, 9, 20}
		out = append(out, &scenario{
			name: "session", family: "session", weight: 6, parties: ids,
			prepare: func(uint64, []byte) (partyBuilder, error) {
				return func(id proto.ID, prng io.Reader) (network.Runner[any], error) {
					return proto.Erase(session.NewSessionRunner(id, proto.SetOf(ids...), prng))
				}, nil
			},
			joint: func(outs map[proto.ID]any, _ []byte) (map[string][]byte, map[string][]byte, error) {
				sids := map[proto.ID][]byte{}
				for id, o := range outs {
					c, ok := o.(*session.Context)
					if !ok || c == nil {
						return nil, nil, fmt.Errorf("party %d returned %T", id, o)
					}
					s := c.SessionID()
					sids[id] = s[:]
				}
				sid, err := agree(sids, "the session identifier")
				if err != nil {
					return nil, nil, err
				}
				return map[string][]byte{"sid": sid}, nil, nil
			},
			encode: func(_ proto.ID, o any) ([]byte, error) {
				c, ok := o.(*session.Context)
				if !ok || c == nil {
					return nil, fmt.Errorf("not a session context: %T", o)
				}
				s := c.SessionID()
				b := append([]byte(nil), s[:]...)
				seeds := c.Seeds()
				var peers []proto.ID
				for id := range seeds {
					peers = append(peers, id)
				}
				sort.Slice(peers, func(i, j int) bool { return peers[i] < peers[j] })
				for _, id := range peers {
					buf := make([]byte, 32)
					if _, err := io.ReadFull(seeds[id], buf); err != nil {
						return nil, err
					}
					b = append(b, buf...)
				}
				return b, nil
			},
		})
	}
	// --- agree on random
	{
		ids := []proto.ID{1, 2, 3}
		out = append(out, &scenario{
			name: "aor", family: "aor", weight: 6, parties: ids,
			prepare: func(ctxSeed uint64, _ []byte) (partyBuilder, error) {
				return func(id proto.ID, prng io.Reader) (network.Runner[any], error) {
					tape := hagrid.NewTranscript("c07-aor")
					tape.AppendBytes("seed", []byte(fmt.Sprint(ctxSeed)))
					return proto.Erase(aor.NewAgreeOnRandomRunner(id, proto.SetOf(ids...), 32, tape, prng))
				}, nil
			},
			joint: func(outs map[proto.ID]any, _ []byte) (map[string][]byte, map[string][]byte, error) {
				vals := map[proto.ID][]byte{}
				for id, o := range outs {
					b, ok := o.([]byte)
					if !ok || len(b) != 32 {
						return nil, nil, fmt.Errorf("party %d returned %T", id, o)
					}
					vals[id] = b
				}
				v, err := agree(vals, "the random value")
				if err != nil {
					return nil, nil, err
				}
				return map[string][]byte{"value": v}, nil, nil
			},
			encode: func(_ proto.ID, o any) ([]byte, error) { return o.([]byte), nil },
		})
	}
	// --- distributed key generation
	for _, c := range []struct {
		kind, tag, group string
		f                func() (*policy.Policy, []uint64)
		weight           int
	}{
		{"gennaro", "thr23", "k256", thr23, 5},
		{"gennaro", "cnf3", "ed25519", cnf3, 2},
		{"canetti", "thr23", "k256", thr23, 5},
		{"canetti", "cnf3", "ed25519", cnf3, 3},
	} {
		c := c
		g := proto.GroupByName(c.group)
		p, raw := c.f()
		ids := proto.ToIDs(raw)
		ac := mustAC(p, raw)
		out = append(out, &scenario{
			name: fmt.Sprintf("%s-%s-%s", c.kind, c.tag, c.group), family: c.kind, weight: c.weight, parties: ids,
			prepare: func(ctxSeed uint64, _ []byte) (partyBuilder, error) {
				ctxs, err := proto.Contexts(ids, ctxSeed, c.kind)
				if err != nil {
					return nil, err
				}
				return func(id proto.ID, prng io.Reader) (network.Runner[any], error) {
					if c.kind == "gennaro" {
						return g.GennaroRunner(ctxs[id], ac, fiatshamir.Name, prng)
					}
					return g.CanettiRunner(ctxs[id], ac, prng)
				}, nil
			},
			joint:  shardJoint(g, true),
			encode: shardEncode(g),
		})
	}
	// --- HJKY zero sharing (directly; redistribution below also runs it inside)
	{
		p, raw := thr23()
		ids := proto.ToIDs(raw)
		ac := mustAC(p, raw)
		out = append(out, &scenario{
			name: "hjky-thr23-k256", family: "hjky", weight: 5, parties: ids,
			prepare: func(ctxSeed uint64, _ []byte) (partyBuilder, error) {
				ctxs, err := proto.Contexts(ids, ctxSeed, "hjky")
				if err != nil {
					return nil, err
				}
				return func(id proto.ID, prng io.Reader) (network.Runner[any], error) {
					part, err := hjky.NewParticipant(ctxs[id], ac, k256.NewCurve(), prng)
					if err != nil {
						return nil, err
					}
					return &hjkyRunner[*k256.Point, *k256.Scalar]{p: part, quorum: proto.SetOf(ids...)}, nil
				}, nil
			},
			joint: func(outs map[proto.ID]any, _ []byte) (map[string][]byte, map[string][]byte, error) {
				random := map[string][]byte{}
				for id, o := range outs {
					h, ok := o.(*hjkyOut)
					if !ok {
						return nil, nil, fmt.Errorf("party %d returned %T", id, o)
					}
					random[fmt.Sprintf("zeroshare/%d", id)] = bytes.Join(h.share, nil)
				}
				return random, nil, nil
			},
			encode: func(_ proto.ID, o any) ([]byte, error) {
				h := o.(*hjkyOut)
				return append(bytes.Join(h.share, nil), h.vv...), nil
			},
		})
	}

	// --- key material for signing and redistribution: dealt once, reused by every run
	p, raw := thr23()
	ids := proto.ToIDs(raw)
	ac := mustAC(p, raw)
	dealt := map[string]map[proto.ID]any{}
	for _, gn := range []string{"k256", "pallas", "ed25519"} {
		sh, err := proto.GroupByName(gn).Deal(ac, vlib.NewPRNG(77, "c07-dealer-"+gn))
		if err != nil {
			panic("harness: trusted dealer: " + err.Error())
		}
		dealt[gn] = sh
	}
	shards := dealt["k256"]

	// --- redistribution
	for _, mode := range []string{"refresh", "to-unanimity"} {
		mode := mode
		prev := []proto.ID{1, 2, 3}
		nextP, _ := thr23()
		if mode == "to-unanimity" {
			prev = []proto.ID{1, 2}
			nextP = &policy.Policy{Family: policy.Unanimity, N: 3}
		}
		next := mustAC(nextP, raw)
		isPrev := map[proto.ID]bool{}
		for _, id := range prev {
			isPrev[id] = true
		}
		out = append(out, &scenario{
			name: "redistribute-" + mode, family: "redistribute", weight: 4, parties: ids, positions: prev,
			prepare: func(ctxSeed uint64, _ []byte) (partyBuilder, error) {
				ctxs, err := proto.Contexts(ids, ctxSeed, "redist")
				if err != nil {
					return nil, err
				}
				return func(id proto.ID, prng io.Reader) (network.Runner[any], error) {
					var ps any
					if isPrev[id] {
						ps = shards[id]
					}
					return k.RedistributeRunner(ctxs[id], prev, ps, next, prng, 0)
				}, nil
			},
			joint:  shardJoint(k, false),
			encode: shardEncode(k),
		})
	}

	// --- Lindell22 threshold Schnorr
	signers := map[string]proto.SchnorrSigner{}
	for _, s := range proto.SchnorrSigners() {
		signers[s.Name()] = s
	}
	for _, c := range []struct {
		signer string
		q      []proto.ID
		weight int
	}{
		{"lindell22-bip340", []proto.ID{1, 3}, 5},
		{"lindell22-bip340", []proto.ID{1, 2, 3}, 3},
		{"lindell22-mina", []proto.ID{2, 3}, 3},
		{"lindell22-schnorr-ed25519-sha512-neg=false-le=true", []proto.ID{1, 2}, 3},
	} {
		c := c
		sg, ok := signers[c.signer]
		if !ok {
			panic("harness: unknown Schnorr signer " + c.signer)
		}
		sh := dealt[sg.GroupName()]
		out = append(out, &scenario{
			name: fmt.Sprintf("%s-q%d", c.signer, len(c.q)), family: "lindell22", weight: c.weight, parties: c.q, msgs: defaultMsgs,
			prepare: func(ctxSeed uint64, msg []byte) (partyBuilder, error) {
				ctxs, err := proto.Contexts(c.q, ctxSeed, "l22")
				if err != nil {
					return nil, err
				}
				return func(id proto.ID, prng io.Reader) (network.Runner[any], error) {
					return sg.Runner(ctxs[id], sh[id], fiatshamir.Name, msg, prng)
				}, nil
			},
			joint: func(outs map[proto.ID]any, msg []byte) (map[string][]byte, map[string][]byte, error) {
				sig, err := sg.Aggregate(sh[c.q[0]], msg, outs)
				if err != nil {
					return nil, nil, fmt.Errorf("aggregating honest partial signatures: %w", err)
				}
				return map[string][]byte{"R": sig.R}, nil, nil
			},
			encode: func(_ proto.ID, o any) ([]byte, error) { return serde.MarshalCBOR(o) },
		})
	}

	// --- DKLs23 threshold ECDSA (both multipliers)
	es := proto.ECDSASigners()[0] // k256 / sha256
	for _, c := range []struct {
		variant string
		q       []proto.ID
		weight  int
	}{
		{"softspoken", []proto.ID{2, 3}, 4},
		{"bbot", []proto.ID{1, 2}, 0}, // ~3-8 s per run: enumerated once per check in the quick tier, drawn in the thorough tier
	} {
		c := c
		out = append(out, &scenario{
			name: "dkls23-" + c.variant, family: "dkls23-" + c.variant, weight: c.weight, parties: c.q, msgs: defaultMsgs,
			prepare: func(ctxSeed uint64, msg []byte) (partyBuilder, error) {
				ctxs, err := proto.Contexts(c.q, ctxSeed, "dkls")
				if err != nil {
					return nil, err
				}
				return func(id proto.ID, prng io.Reader) (network.Runner[any], error) {
					return es.DKLS23Runner(c.variant, ctxs[id], shards[id], msg, prng)
				}, nil
			},
			joint: func(outs map[proto.ID]any, msg []byte) (map[string][]byte, map[string][]byte, error) {
				var ps []any
				for _, id := range c.q {
					ps = append(ps, outs[id])
				}
				sig, err := es.DKLS23Aggregate(shards[c.q[0]], msg, ps)
				if err != nil {
					return nil, nil, fmt.Errorf("aggregating honest partial signatures: %w", err)
				}
				return map[string][]byte{"r": sig.R.Bytes()}, nil, nil
			},
			encode: func(_ proto.ID, o any) ([]byte, error) { return es.DKLS23PartialCBOR(o) },
		})
	}

	// --- Lindell17 two-party ECDSA signing on dealt shards (1024-bit test keys)
	{
		shardsL, _, err := es.Lindell17Deal(ac, 1024, vlib.NewPRNG(78, "c07-l17-dealer"))
		if err != nil {
			panic("harness: lindell17 dealer: " + err.Error())
		}
		q := []proto.ID{1, 2}
		out = append(out, &scenario{
			name: "lindell17-sign", family: "lindell17", weight: 4, parties: q, msgs: defaultMsgs,
			prepare: func(ctxSeed uint64, msg []byte) (partyBuilder, error) {
				ctxs, err := proto.Contexts(q, ctxSeed, "l17")
				if err != nil {
					return nil, err
				}
				return func(id proto.ID, prng io.Reader) (network.Runner[any], error) {
					if id == 1 {
						return es.Lindell17Runner(true, ctxs[1], shardsL[1], 2, fischlin.Name, msg, prng)
					}
					return es.Lindell17Runner(false, ctxs[2], shardsL[2], 1, fischlin.Name, msg, prng)
				}, nil
			},
			joint: func(outs map[proto.ID]any, _ []byte) (map[string][]byte, map[string][]byte, error) {
				sig, err := es.SigOf(outs[1])
				if err != nil {
					return nil, nil, fmt.Errorf("primary output: %w", err)
				}
				return map[string][]byte{"r": sig.R.Bytes()}, nil, nil
			},
			encode: func(_ proto.ID, o any) ([]byte, error) {
				sig, err := es.SigOf(o)
				if err != nil {
					return []byte("no-signature"), nil //nolint:nilerr // the secondary outputs none
				}
				return []byte(sig.String()), nil
			},
		})
	}
	// --- CGGMP21 threshold ECDSA on the dealt 2-of-3 key; auxiliary information (Paillier-Blum and
	// ring-Pedersen keys) is built from prime FIXTURES through the library's constructors, so no
	// prime generation happens in the run. The protocol documents that it reads the caller's
	// reader from several goroutines: no replay / locality / consumption facts (all false), i.e.
	// only "own stream changes own messages and the joint nonce" (P1), "no nonce or joint value
	// ever repeats" (P3), per-recipient freshness (P7) and "a starved party never panics" apply.
	// ~4-8 s per run: position 0 once per check in the quick tier, drawn in the thorough tier.
	{
		q := []proto.ID{1, 2, 3}
		shardsC, err := es.CGGMP21Shards(shards)
		if err != nil {
			panic("harness: cggmp21 shards: " + err.Error())
		}
		out = append(out, &scenario{
			name: "cggmp21", family: "cggmp21", weight: 0, parties: q, msgs: defaultMsgs,
			prepare: func(ctxSeed uint64, msg []byte) (partyBuilder, error) {
				ctxs, err := proto.Contexts(q, ctxSeed, "cggmp21")
				if err != nil {
					return nil, err
				}
				return func(id proto.ID, prng io.Reader) (network.Runner[any], error) {
					return es.CGGMP21Runner(ctxs[id], shardsC[id], msg, prng)
				}, nil
			},
			joint: func(outs map[proto.ID]any, _ []byte) (map[string][]byte, map[string][]byte, error) {
				sig, err := es.CGGMP21Finish(outs)
				if err != nil {
					return nil, nil, fmt.Errorf("aggregating honest partial signatures: %w", err)
				}
				return map[string][]byte{"r": sig.R.Bytes()}, nil, nil
			},
			encode: func(_ proto.ID, o any) ([]byte, error) { return []byte(fmt.Sprintf("%T", o)), nil },
		})
	}
	return out
}
