package c07

import (
	"bytes"
	"fmt"
	"io"
	"testing"

	"github.com/bronlabs/bron-crypto/pkg/base/curves/k256"
	"github.com/bronlabs/bron-crypto/pkg/base/nt"
	"github.com/bronlabs/bron-crypto/pkg/base/nt/num"
	"github.com/bronlabs/bron-crypto/pkg/base/nt/znstar"
	"github.com/bronlabs/bron-crypto/pkg/commitments/intcom"
	"github.com/bronlabs/bron-crypto/pkg/encryption/paillier"
	"github.com/bronlabs/bron-crypto/pkg/mpc/signatures/ecdsa/lindell17"
	"verif/harness/vlib"
	"verif/harness/vlib/proto"
)

// Finding C07-prime-generation-ignores-reader.
//
// nt.GeneratePrime / nt.GeneratePrimePair hand the caller's reader to crypto/rand.Prime (bits < 512)
// resp. crypto/rsa.GenerateKey (modulus >= 1024 bits, and every single prime of >= 512 bits). Since
// Go 1.26 both IGNORE their reader argument (crypto/internal/rand.CustomReader returns the system
// source unless GODEBUG=cryptocustomrand=1; /repo/go.mod says `go 1.26`, so the default applies).
// Consequently every secret prime that is generated through
//
//	paillier.SampleSecretKey -> znstar.SamplePaillierGroup -> nt.GeneratePrimePair
//	znstar.SampleRSAGroup    -> nt.GeneratePrimePair
//
// i.e. the Paillier keys of lindell17 keygen/trusted_dealer.Deal{,Random} (trusted_dealer.go:72) and
// of round 3 of the lindell17 DKG (keygen/dkg/round.go:203: paillier.SampleSecretKey(p.paillierKeyLen,
// p.prng)), does NOT come from the random source the caller supplied: the call reads 0 bytes from
// it, succeeds with a reader whose every Read fails, and two calls on identical streams give
// different keys. The Blum / safe-prime generators (cggmp21 dealer and aux-info DKG, intcom
// trapdoor keys) are not affected: they read the reader themselves (io.ReadFull / crand.Int).
//
// The criterion used below is the unambiguous one: "reads 0 bytes from the supplied reader AND
// succeeds although the reader always fails".
const knownPrimeGeneration = "C07-prime-generation-ignores-reader"

type keygenProbe struct {
	name string
	gen  func(prng io.Reader) ([]byte, error)
}

func probeIgnoresReader(t *testing.T, p keygenProbe) (ignored bool, detail string) {
	a := vlib.NewPRNG(1, "c07-keygen/"+p.name)
	var ka []byte
	var err error
	vlib.NoPanic(t, p.name, func() { ka, err = p.gen(a) })
	if err != nil {
		t.Fatalf("%s failed with an unlimited reader: %v", p.name, err)
	}
	b := vlib.NewPRNG(1, "c07-keygen/"+p.name)
	var kb []byte
	vlib.NoPanic(t, p.name, func() { kb, err = p.gen(b) })
	if err != nil {
		t.Fatalf("%s failed with an unlimited reader: %v", p.name, err)
	}
	s := vlib.NewPRNG(1, "c07-keygen/"+p.name)
	s.StarveAfter(0)
	var errS error
	vlib.NoPanic(t, p.name+" (failing reader)", func() { _, errS = p.gen(s) })
	detail = fmt.Sprintf("%s: read %d bytes of the supplied reader; with a reader that always fails: %s; two calls on identical streams gave %s results",
		p.name, a.Consumed(), map[bool]string{true: "SUCCEEDED", false: "error"}[errS == nil], map[bool]string{true: "equal", false: "different"}[bytes.Equal(ka, kb)])
	return a.Consumed() == 0 && errS == nil, detail
}

func TestPrimeGenerationUsesReader(t *testing.T) {
	const test = "PrimeGenerationUsesReader"
	if !vlib.Mine(5) {
		t.Skip("runs on one shard")
	}
	natBytes := func(p *num.NatPlus) []byte { return p.Big().Bytes() }
	affected := []keygenProbe{
		{"nt.GeneratePrime(256 bits) [crypto/rand.Prime]", func(r io.Reader) ([]byte, error) {
			p, err := nt.GeneratePrime(num.NPlus(), 256, r)
			if err != nil {
				return nil, err
			}
			return natBytes(p), nil
		}},
		{"nt.GeneratePrime(512 bits) [crypto/rsa.GenerateKey]", func(r io.Reader) ([]byte, error) {
			p, err := nt.GeneratePrime(num.NPlus(), 512, r)
			if err != nil {
				return nil, err
			}
			return natBytes(p), nil
		}},
		{"nt.GeneratePrimePair(512-bit modulus) [crypto/rand.Prime]", func(r io.Reader) ([]byte, error) {
			p, q, err := nt.GeneratePrimePair(num.NPlus(), 512, r)
			if err != nil {
				return nil, err
			}
			return append(natBytes(p), natBytes(q)...), nil
		}},
		{"nt.GeneratePrimePair(1024-bit modulus) [crypto/rsa.GenerateKey]", func(r io.Reader) ([]byte, error) {
			p, q, err := nt.GeneratePrimePair(num.NPlus(), 1024, r)
			if err != nil {
				return nil, err
			}
			return append(natBytes(p), natBytes(q)...), nil
		}},
		{"paillier.SampleSecretKey(1024)", func(r io.Reader) ([]byte, error) {
			sk, err := paillier.SampleSecretKey(1024, r)
			if err != nil {
				return nil, err
			}
			return sk.Public().MarshalCBOR()
		}},
		{"znstar.SampleRSAGroup(1024)", func(r io.Reader) ([]byte, error) {
			g, err := znstar.SampleRSAGroup(1024, r)
			if err != nil {
				return nil, err
			}
			return g.Modulus().Big().Bytes(), nil
		}},
	}
	present := false
	var details []string
	for _, p := range affected {
		ign, d := probeIgnoresReader(t, p)
		details = append(details, d)
		if ign {
			present = true
			vlib.Excluded(knownPrimeGeneration)
		}
		vlib.Case(test, vlib.Desc("keygen", p.name), true, fmt.Sprintf("ignores-reader=%v", ign))
	}

	// protocol level: the lindell17 trusted dealer on identical streams - the ECDSA key and shares
	// follow the stream, the Paillier keys do not.
	es := proto.ECDSASigners()[0]
	p23, raw := thr23()
	ac := mustAC(p23, raw)
	type l17 = *lindell17.Shard[*k256.Point, *k256.BaseFieldElement, *k256.Scalar]
	deal := func() (pk []byte, paillierPK []byte, consumed uint64) {
		prng := vlib.NewPRNG(2, "c07-l17-dealer-probe")
		shards, pkb, err := es.Lindell17Deal(ac, 1024, prng)
		if err != nil {
			t.Fatalf("lindell17 trusted dealer: %v", err)
		}
		sh, ok := shards[1].(l17)
		if !ok {
			t.Fatalf("unexpected shard type %T", shards[1])
		}
		b, err := sh.PaillierSecretKey().Public().MarshalCBOR()
		if err != nil {
			t.Fatalf("encoding: %v", err)
		}
		return pkb, b, prng.Consumed()
	}
	pk1, pp1, n1 := deal()
	pk2, pp2, _ := deal()
	if !bytes.Equal(pk1, pk2) {
		t.Fatalf("lindell17 trusted dealer: the ECDSA public key differs between two dealings on identical streams (the base dealing is sequential)")
	}
	l17Ignored := !bytes.Equal(pp1, pp2)
	details = append(details, fmt.Sprintf("lindell17 trusted_dealer.DealRandom(1024) on two identical streams (%d bytes read): same ECDSA key, Paillier key of holder 1 %s",
		n1, map[bool]string{true: "DIFFERENT", false: "equal"}[l17Ignored]))
	vlib.Case(test, vlib.Desc("keygen", "lindell17-trusted-dealer"), true, fmt.Sprintf("paillier-key-follows-stream=%v", !l17Ignored))

	what := "Paillier / RSA prime generation (nt.GeneratePrime, nt.GeneratePrimePair <- znstar.SamplePaillierGroup / SampleRSAGroup <- paillier.SampleSecretKey <- lindell17 trusted dealer and lindell17 DKG round 3) does not draw from the caller's reader under go >= 1.26: crypto/rand.Prime and crypto/rsa.GenerateKey ignore their reader argument. "
	for _, d := range details {
		what += " | " + d
	}
	vlib.Known(knownPrimeGeneration, present, what)
	vlib.Sample("finding/"+knownPrimeGeneration, map[string]any{"present": present, "observations": details})

	// controls: the generators that read the reader themselves must keep doing so
	controls := []keygenProbe{
		{"paillier.SampleBlumSecretKey(512)", func(r io.Reader) ([]byte, error) {
			sk, err := paillier.SampleBlumSecretKey(512, r)
			if err != nil {
				return nil, err
			}
			return sk.Public().MarshalCBOR()
		}},
		{"paillier.SampleSafeSecretKey(256)", func(r io.Reader) ([]byte, error) {
			sk, err := paillier.SampleSafeSecretKey(256, r)
			if err != nil {
				return nil, err
			}
			return sk.Public().MarshalCBOR()
		}},
		{"intcom.SampleTrapdoorKey(256)", func(r io.Reader) ([]byte, error) {
			k, err := intcom.SampleTrapdoorKey(256, r)
			if err != nil {
				return nil, err
			}
			return k.CommitmentKey.MarshalCBOR()
		}},
	}
	for _, p := range controls {
		a := vlib.NewPRNG(3, "c07-keygen/"+p.name)
		if _, err := p.gen(a); err != nil {
			t.Fatalf("%s failed with an unlimited reader: %v", p.name, err)
		}
		if a.Consumed() == 0 {
			t.Fatalf("P6 %s: generated a secret key without reading the supplied random source", p.name)
		}
		for _, budget := range []int64{0, 8} { // 8 bytes: less than a single prime candidate
			s := vlib.NewPRNG(3, "c07-keygen/"+p.name)
			s.StarveAfter(budget)
			var err error
			vlib.NoPanic(t, p.name+" (failing reader)", func() { _, err = p.gen(s) })
			if err == nil {
				t.Fatalf("P4 %s: generated a secret key although the supplied reader fails after %d bytes (an unlimited run read %d)", p.name, budget, a.Consumed())
			}
		}
		vlib.Case(test, vlib.Desc("keygen-control", p.name), true, "ignores-reader=false")
	}
}
