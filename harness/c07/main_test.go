package c07

import (
	"testing"

	"verif/harness/vlib"
)

func TestMain(m *testing.M) { vlib.Main(m) }
