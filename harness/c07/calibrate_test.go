package c07

import (
	"bytes"
	"fmt"
	"os"
	"strconv"
	"testing"
	"time"

	"verif/harness/vlib/proto"
)

// frozenFacts: measured on the UNCHANGED tree (commit 0c462cf, go1.26.8, -tags purego) with
//
//	C07_CALIBRATE=60 go1.26 test -tags purego -run TestCalibrate -v ./c07
//
// (60 identical-stream runs per scenario, 30 for dkls23-bbot, on a heavily loaded machine; a scenario is admitted to
// a check only if ALL runs agreed). Do not edit by hand without re-running the calibration.
//
//	sequential: wire-log multiset and outputs identical  -> P5 (replay determinism) asserted
//	firstDet:   every party's first-round message identical -> P2 (locality) asserted
//	consDet:    every party's byte consumption identical  -> P4 "does not complete" asserted
var frozenFacts = map[string]facts{
	"session":                   {sequential: true, firstDet: true, consDet: true},
	"aor":                       {sequential: true, firstDet: true, consDet: true},
	"gennaro-thr23-k256":        {sequential: false, firstDet: false, consDet: true},
	"gennaro-cnf3-ed25519":      {sequential: false, firstDet: false, consDet: true},
	"canetti-thr23-k256":        {sequential: true, firstDet: true, consDet: true},
	"canetti-cnf3-ed25519":      {sequential: true, firstDet: true, consDet: true},
	"hjky-thr23-k256":           {sequential: true, firstDet: true, consDet: true},
	"redistribute-refresh":      {sequential: true, firstDet: true, consDet: true},
	"redistribute-to-unanimity": {sequential: true, firstDet: true, consDet: true},
	"lindell22-bip340-q2":       {sequential: true, firstDet: true, consDet: true},
	"lindell22-bip340-q3":       {sequential: true, firstDet: true, consDet: true},
	"lindell22-mina-q2":         {sequential: true, firstDet: true, consDet: true},
	"lindell22-schnorr-ed25519-sha512-neg=false-le=true-q2": {sequential: true, firstDet: true, consDet: true},
	"dkls23-softspoken": {sequential: true, firstDet: true, consDet: true},
	"dkls23-bbot":       {sequential: true, firstDet: true, consDet: true},
	"lindell17-sign":    {sequential: true, firstDet: true, consDet: true},
	// documented concurrent reads of the caller's reader (README of cggmp21/signing): nothing is asserted
	// that needs a reproducible run
	"cggmp21": {sequential: false, firstDet: false, consDet: false},
}

func fixedSeeds(sc *scenario, salt uint64) map[proto.ID]uint64 {
	m := map[proto.ID]uint64{}
	for _, id := range sc.parties {
		m[id] = salt*1000003 + uint64(id)
	}
	return m
}

// TestCalibrate measures the facts above. It is not part of the check (skipped unless
// C07_CALIBRATE=<runs> is set).
func TestCalibrate(t *testing.T) {
	n, _ := strconv.Atoi(os.Getenv("C07_CALIBRATE"))
	if n <= 0 {
		t.Skip("calibration only (C07_CALIBRATE=<runs>)")
	}
	only := os.Getenv("C07_SCENARIO")
	for _, sc := range allScenarios() {
		if only != "" && only != sc.name {
			continue
		}
		var refWire []byte
		var refOut, refFirst map[proto.ID][]byte
		var refCons map[proto.ID]uint64
		seq, first, cons := true, true, true
		var wall time.Duration
		for i := 0; i < n; i++ {
			res, err := runScenario(sc, runSpec{ctxSeed: 1, msg: sc.msgs[0], seeds: fixedSeeds(sc, 5)})
			if err != nil {
				t.Fatalf("%s: %v", sc.name, err)
			}
			if err := res.ok(); err != nil {
				t.Fatalf("%s: honest run failed: %v", sc.name, err)
			}
			if _, _, err := sc.joint(res.outs(), sc.msgs[0]); err != nil {
				t.Fatalf("%s: %v", sc.name, err)
			}
			wall += res.wall
			if i == 0 {
				checkRecipientFreshness(t, "Calibrate", sc, res.log, caseParams{sc: sc})
			}
			w := wireMultiset(res.log)
			outs, firsts, c := map[proto.ID][]byte{}, map[proto.ID][]byte{}, map[proto.ID]uint64{}
			for _, id := range sc.parties {
				b, err := sc.encode(id, res.parties[id].out)
				if err != nil {
					t.Fatalf("%s: encoding output of %d: %v", sc.name, id, err)
				}
				outs[id] = b
				_, d, _, _ := firstRound(res.log, id)
				firsts[id] = d
				c[id] = res.parties[id].consumed
			}
			if i == 0 {
				refWire, refOut, refFirst, refCons = w, outs, firsts, c
				continue
			}
			if !bytes.Equal(w, refWire) {
				seq = false
			}
			for _, id := range sc.parties {
				if !bytes.Equal(outs[id], refOut[id]) {
					seq = false
				}
				if !bytes.Equal(firsts[id], refFirst[id]) {
					first = false
				}
				if c[id] != refCons[id] {
					cons = false
				}
			}
		}
		fmt.Printf("CALIBRATION\t%q: {sequential: %v, firstDet: %v, consDet: %v},\t// %d runs, %.0f ms/run, bytes %v\n",
			sc.name, seq, first, cons, n, float64(wall.Milliseconds())/float64(n), refCons)
	}
}

// mayRepeatList: places (scenario|round|leaf class) at which the unchanged tree gives two recipients
// of one sender's unicasts the same >= 16-byte value - public values the protocols repeat
// deliberately. Measured with C07_CALIBRATE (MAYREPEAT lines) on /repo 043d51a.
var mayRepeatList = []string{
	// CNF (replicated) sharing: the component belonging to one maximal unqualified set is given to
	// EVERY holder outside that set, so two recipients legitimately receive the same component
	"gennaro-cnf3-ed25519|GennaroDKGRound1|/share/blinding/*/r/fieldBytes",
	"gennaro-cnf3-ed25519|GennaroDKGRound1|/share/secret/*/m/fieldBytes",
	"canetti-cnf3-ed25519|BRON_CRYPTO_DKG_CANETTI_R2|/Share/value/*/fieldBytes",
}
