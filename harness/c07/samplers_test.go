package c07

import (
	"bytes"
	"fmt"
	"io"
	"math/big"
	"sort"
	"sync"
	"testing"

	"pgregory.net/rapid"

	"github.com/bronlabs/bron-crypto/pkg/base/algebra"
	"github.com/bronlabs/bron-crypto/pkg/base/curves/edwards25519"
	"github.com/bronlabs/bron-crypto/pkg/base/curves/k256"
	"github.com/bronlabs/bron-crypto/pkg/base/curves/pairable/bls12381"
	"github.com/bronlabs/bron-crypto/pkg/base/curves/pasta"
	"github.com/bronlabs/bron-crypto/pkg/base/nt"
	"github.com/bronlabs/bron-crypto/pkg/base/nt/num"
	"github.com/bronlabs/bron-crypto/pkg/base/nt/znstar"
	"github.com/bronlabs/bron-crypto/pkg/base/serde"
	"github.com/bronlabs/bron-crypto/pkg/commitments"
	"github.com/bronlabs/bron-crypto/pkg/commitments/hashcom"
	"github.com/bronlabs/bron-crypto/pkg/commitments/intcom"
	"github.com/bronlabs/bron-crypto/pkg/commitments/pedersencom"
	"github.com/bronlabs/bron-crypto/pkg/encryption"
	"github.com/bronlabs/bron-crypto/pkg/encryption/elgamal"
	"github.com/bronlabs/bron-crypto/pkg/encryption/paillier"
	"github.com/bronlabs/bron-crypto/pkg/mpc"
	"github.com/bronlabs/bron-crypto/pkg/mpc/sharing/scheme/kw"
	"github.com/bronlabs/bron-crypto/pkg/mpc/sharing/vss/feldman"
	"github.com/bronlabs/bron-crypto/pkg/mpc/sharing/vss/pedersen"
	"github.com/bronlabs/bron-crypto/pkg/mpc/signatures/bls/boldyreva02/keygen"
	"github.com/bronlabs/bron-crypto/pkg/mpc/signatures/bls/boldyreva02/signing"
	"github.com/bronlabs/bron-crypto/pkg/mpc/signatures/ecdsa/lindell17"
	"github.com/bronlabs/bron-crypto/pkg/signatures/bls"
	"verif/harness/vlib"
	"verif/harness/vlib/lx"
	"verif/harness/vlib/policy"
	"verif/harness/vlib/proto"
)

// A sampler is one non-interactive operation that takes an io.Reader. sample runs it on FIXED
// inputs (key, message, secret, access structure) and returns named byte strings:
//
//	random[...]  values that are specified to be sampled: equal streams => equal, different streams => different
//	public[...]  everything else that is output (compared for equal streams only)
type sampler struct {
	name   string
	family string
	sample func(prng io.Reader) (random, public map[string][]byte, err error)
	// concurrent: the operation is documented to read the reader from several goroutines: equal
	// streams need not give equal results and the byte count is not replayable (only P1, P3, P6 and
	// "a reader that always fails => error" are asserted).
	concurrent bool
	// known: the sampling site is exactly a catalogued finding; it is skipped (vlib.Excluded) while
	// the finding is present and checked like every other sampler once it is repaired.
	known string
}

// ---- dealing ----------------------------------------------------------------------------------------

var dealStructures = []struct {
	tag string
	p   *policy.Policy
	ids []uint64
}{
	{"thr2of3", &policy.Policy{Family: policy.Threshold, N: 3, T: 2}, []uint64{1, 2, 3}},
	{"thr3of5", &policy.Policy{Family: policy.Threshold, N: 5, T: 3}, []uint64{2, 3, 5, 8, 13}},
	{"unanimity3", &policy.Policy{Family: policy.Unanimity, N: 3}, []uint64{1, 2, 3}},
	{"cnf3", &policy.Policy{Family: policy.CNF, N: 3, MUS: []uint64{1, 2, 4}}, []uint64{7, 3, 40}},
}

// secrets are reused across cases on purpose; "random" lets the dealer draw the secret itself.
var dealSecrets = []string{"0", "42", "random"}

func feBytes[S algebra.PrimeFieldElement[S]](xs []S) []byte {
	var b []byte
	for _, x := range xs {
		b = append(b, x.Bytes()...)
	}
	return b
}

func dealSamplers[G algebra.PrimeGroupElement[G, S], S algebra.PrimeFieldElement[S]](gname string, g algebra.PrimeGroup[G, S]) []*sampler {
	field := algebra.StructureMustBeAs[algebra.PrimeField[S]](g.ScalarStructure())
	pedKey, err := pedersencom.SampleCommitmentKey(g, vlib.NewPRNG(9, "c07-pedersen-key-"+gname))
	if err != nil {
		panic("harness: pedersen key: " + err.Error())
	}
	var out []*sampler
	for _, st := range dealStructures {
		ac := mustAC(st.p, st.ids)
		for _, sec := range dealSecrets {
			sec := sec
			secret := func() *kw.Secret[S] {
				v, _ := new(big.Int).SetString(sec, 10)
				return kw.NewSecret(lx.FE(field, v))
			}
			name := func(scheme string) string { return fmt.Sprintf("deal/%s/%s/%s/secret=%s", scheme, gname, st.tag, sec) }
			out = append(out, &sampler{name: name("kw"), family: "deal-kw", sample: func(prng io.Reader) (map[string][]byte, map[string][]byte, error) {
				sc, err := kw.NewScheme(field, ac)
				if err != nil {
					panic("harness: kw.NewScheme: " + err.Error())
				}
				var d *kw.DealerOutput[S]
				random, public := map[string][]byte{}, map[string][]byte{}
				if sec == "random" {
					var s *kw.Secret[S]
					d, s, err = sc.DealRandom(prng)
					if err == nil {
						random["secret"] = s.Value().Bytes()
					}
				} else {
					d, err = sc.Deal(secret(), prng)
				}
				if err != nil {
					return nil, nil, err
				}
				for id, sh := range d.Shares().Iter() {
					random[fmt.Sprintf("share/%d", id)] = feBytes(sh.Value())
				}
				return random, public, nil
			}})
			out = append(out, &sampler{name: name("feldman"), family: "deal-feldman", sample: func(prng io.Reader) (map[string][]byte, map[string][]byte, error) {
				sc, err := feldman.NewScheme(g, ac)
				if err != nil {
					panic("harness: feldman.NewScheme: " + err.Error())
				}
				var d *feldman.DealerOutput[G, S]
				random, public := map[string][]byte{}, map[string][]byte{}
				if sec == "random" {
					var s *kw.Secret[S]
					d, s, err = sc.DealRandom(prng)
					if err == nil {
						random["secret"] = s.Value().Bytes()
					}
				} else {
					d, err = sc.Deal(secret(), prng)
				}
				if err != nil {
					return nil, nil, err
				}
				for id, sh := range d.Shares().Iter() {
					random[fmt.Sprintf("share/%d", id)] = feBytes(sh.Value())
				}
				vv, err := serde.MarshalCBOR(d.VerificationMaterial())
				if err != nil {
					return nil, nil, err
				}
				random["verification-vector"] = vv
				return random, public, nil
			}})
			out = append(out, &sampler{name: name("pedersen"), family: "deal-pedersen", sample: func(prng io.Reader) (map[string][]byte, map[string][]byte, error) {
				sc, err := pedersen.NewScheme(pedKey, ac)
				if err != nil {
					panic("harness: pedersen.NewScheme: " + err.Error())
				}
				var d *pedersen.DealerOutput[G, S]
				random, public := map[string][]byte{}, map[string][]byte{}
				if sec == "random" {
					var s *kw.Secret[S]
					d, s, err = sc.DealRandom(prng)
					if err == nil {
						random["secret"] = s.Value().Bytes()
					}
				} else {
					d, err = sc.Deal(secret(), prng)
				}
				if err != nil {
					return nil, nil, err
				}
				for id, sh := range d.Shares().Iter() {
					random[fmt.Sprintf("share/%d", id)] = feBytes(sh.Value())
					var bl []byte
					for _, w := range sh.Blinding() {
						bl = append(bl, w.Value().Bytes()...)
					}
					random[fmt.Sprintf("blinding/%d", id)] = bl
				}
				vv, err := serde.MarshalCBOR(d.VerificationMaterial())
				if err != nil {
					return nil, nil, err
				}
				random["verification-vector"] = vv
				return random, public, nil
			}})
		}
	}
	// trusted dealer of base shards (what every keygen-by-dealer uses)
	for _, st := range dealStructures {
		ac := mustAC(st.p, st.ids)
		out = append(out, &sampler{name: fmt.Sprintf("deal/trusteddealer/%s/%s", gname, st.tag), family: "deal-trusted", sample: func(prng io.Reader) (map[string][]byte, map[string][]byte, error) {
			shards, err := proto.GroupByName(gname).Deal(ac, prng)
			if err != nil {
				return nil, nil, err
			}
			random := map[string][]byte{}
			for id, sh := range shards {
				info, err := proto.GroupByName(gname).Info(sh)
				if err != nil {
					return nil, nil, err
				}
				random["pk"] = info.PK
				var b []byte
				for _, x := range info.Share {
					b = append(b, x.FillBytes(make([]byte, 48))...)
				}
				random[fmt.Sprintf("share/%d", id)] = b
			}
			return random, nil, nil
		}})
	}
	// Pedersen commitments and ElGamal over the same group
	for _, m := range []string{"0", "1", "123456789"} {
		v, _ := new(big.Int).SetString(m, 10)
		out = append(out, &sampler{name: fmt.Sprintf("commit/pedersen/%s/m=%s", gname, m), family: "commit-pedersen", sample: func(prng io.Reader) (map[string][]byte, map[string][]byte, error) {
			msg, err := pedersencom.NewMessage(lx.FE(field, v))
			if err != nil {
				panic("harness: " + err.Error())
			}
			c, w, err := commitments.Commit(pedKey, msg, prng)
			if err != nil {
				return nil, nil, err
			}
			return map[string][]byte{"witness": w.Value().Bytes(), "commitment": c.Value().Bytes()}, nil, nil
		}})
	}
	out = append(out, &sampler{name: "commit/pedersen-key/" + gname, family: "commit-pedersen-key", sample: func(prng io.Reader) (map[string][]byte, map[string][]byte, error) {
		k, err := pedersencom.SampleCommitmentKey(g, prng)
		if err != nil {
			return nil, nil, err
		}
		return map[string][]byte{"h": k.H().Bytes()}, map[string][]byte{"g": k.G().Bytes()}, nil
	}})
	return out
}

func elgamalSamplers[E elgamal.FiniteCyclicGroupElement[E, S], S algebra.UintLike[S]](gname string, g elgamal.FiniteCyclicGroup[E, S]) []*sampler {
	sk, err := elgamal.SampleSecretKey(g, vlib.NewPRNG(11, "c07-elgamal-key-"+gname))
	if err != nil {
		panic("harness: elgamal key: " + err.Error())
	}
	pk := sk.Public()
	var out []*sampler
	out = append(out, &sampler{name: "keygen/elgamal/" + gname, family: "keygen-elgamal", sample: func(prng io.Reader) (map[string][]byte, map[string][]byte, error) {
		k, err := elgamal.SampleSecretKey(g, prng)
		if err != nil {
			return nil, nil, err
		}
		return map[string][]byte{"secret": k.Value().Bytes(), "h": k.H().Bytes()}, nil, nil
	}})
	for i, pt := range []E{g.Generator(), g.Generator().Op(g.Generator())} {
		pt := pt
		out = append(out, &sampler{name: fmt.Sprintf("encrypt/elgamal/%s/m=%d", gname, i), family: "encrypt-elgamal", sample: func(prng io.Reader) (map[string][]byte, map[string][]byte, error) {
			p, err := elgamal.NewPlaintext(pt)
			if err != nil {
				panic("harness: " + err.Error())
			}
			c, n, err := encryption.Encrypt(p, pk, prng)
			if err != nil {
				return nil, nil, err
			}
			cb, err := serde.MarshalCBOR(c)
			if err != nil {
				return nil, nil, err
			}
			return map[string][]byte{"nonce": n.Value().Bytes(), "ciphertext": cb}, nil, nil
		}})
	}
	return out
}

func natPlus(b *big.Int) *num.NatPlus {
	v, err := num.NPlus().FromBytesBE(b.Bytes())
	if err != nil {
		panic("harness: " + err.Error())
	}
	return v
}

func otherSamplers() []*sampler {
	var out []*sampler
	// hash commitments: the key and the witness
	out = append(out, &sampler{name: "commit/hashcom-key", family: "commit-hash-key", sample: func(prng io.Reader) (map[string][]byte, map[string][]byte, error) {
		k, err := hashcom.SampleCommitmentKey(prng)
		if err != nil {
			return nil, nil, err
		}
		return map[string][]byte{"key": k[:]}, nil, nil
	}})
	hk, err := hashcom.SampleCommitmentKey(vlib.NewPRNG(12, "c07-hashcom-key"))
	if err != nil {
		panic("harness: " + err.Error())
	}
	for i, m := range [][]byte{{}, []byte("c07"), bytes.Repeat([]byte{0xab}, 200)} {
		m := m
		out = append(out, &sampler{name: fmt.Sprintf("commit/hashcom/m#%d", i), family: "commit-hash", sample: func(prng io.Reader) (map[string][]byte, map[string][]byte, error) {
			c, w, err := commitments.Commit(hk, hashcom.Message(m), prng)
			if err != nil {
				return nil, nil, err
			}
			return map[string][]byte{"witness": w[:], "commitment": c[:]}, nil, nil
		}})
	}
	// Paillier encryption under fixture keys (1024-bit modulus from two 512-bit fixture primes)
	ps := vlib.Primes(512, "ord")
	grp, err := znstar.NewPaillierGroup(natPlus(ps[0]), natPlus(ps[1]))
	if err != nil {
		panic("harness: paillier group: " + err.Error())
	}
	sk, err := paillier.NewSecretKey(grp)
	if err != nil {
		panic("harness: paillier key: " + err.Error())
	}
	pk := sk.Public()
	for _, m := range []string{"0", "1", "987654321987654321"} {
		v, _ := new(big.Int).SetString(m, 10)
		out = append(out, &sampler{name: "encrypt/paillier/m=" + m, family: "encrypt-paillier", sample: func(prng io.Reader) (map[string][]byte, map[string][]byte, error) {
			nat, err := num.N().FromBytesBE(v.Bytes())
			if err != nil {
				panic("harness: " + err.Error())
			}
			pt, err := paillier.NewPlaintextFromNat(nat, grp.N())
			if err != nil {
				panic("harness: " + err.Error())
			}
			c, n, err := encryption.Encrypt(pt, pk, prng)
			if err != nil {
				return nil, nil, err
			}
			return map[string][]byte{"nonce": n.Bytes(), "ciphertext": c.Bytes()}, nil, nil
		}})
	}
	return out
}

// keygenSamplers: integer-factorisation key generation. The sites behind nt.GeneratePrime /
// nt.GeneratePrimePair are the catalogued finding C07-prime-generation-ignores-reader (see
// primes_test.go); the Blum / safe-prime generators are the unaffected controls.
func keygenSamplers() []*sampler {
	paillierPK := func(sk *paillier.SecretKey, err error) (map[string][]byte, map[string][]byte, error) {
		if err != nil {
			return nil, nil, err
		}
		b, err := sk.Public().MarshalCBOR()
		if err != nil {
			return nil, nil, err
		}
		return map[string][]byte{"modulus": b}, nil, nil
	}
	p23, raw := thr23()
	ac := mustAC(p23, raw)
	es := proto.ECDSASigners()[0]
	type l17 = *lindell17.Shard[*k256.Point, *k256.BaseFieldElement, *k256.Scalar]
	return []*sampler{
		{name: "keygen/nt.GeneratePrime(256)", family: "keygen-prime", known: knownPrimeGeneration, sample: func(prng io.Reader) (map[string][]byte, map[string][]byte, error) {
			p, err := nt.GeneratePrime(num.NPlus(), 256, prng)
			if err != nil {
				return nil, nil, err
			}
			return map[string][]byte{"prime": p.Big().Bytes()}, nil, nil
		}},
		{name: "keygen/paillier.SampleSecretKey(1024)", family: "keygen-paillier", known: knownPrimeGeneration, sample: func(prng io.Reader) (map[string][]byte, map[string][]byte, error) {
			return paillierPK(paillier.SampleSecretKey(1024, prng))
		}},
		{name: "keygen/znstar.SampleRSAGroup(1024)", family: "keygen-rsa", known: knownPrimeGeneration, sample: func(prng io.Reader) (map[string][]byte, map[string][]byte, error) {
			g, err := znstar.SampleRSAGroup(1024, prng)
			if err != nil {
				return nil, nil, err
			}
			return map[string][]byte{"modulus": g.Modulus().Big().Bytes()}, nil, nil
		}},
		{name: "keygen/lindell17-trusted-dealer(1024)/paillier-keys", family: "keygen-lindell17-dealer", known: knownPrimeGeneration, sample: func(prng io.Reader) (map[string][]byte, map[string][]byte, error) {
			shards, _, err := es.Lindell17Deal(ac, 1024, prng)
			if err != nil {
				return nil, nil, err
			}
			random := map[string][]byte{}
			for id, v := range shards {
				sh, ok := v.(l17)
				if !ok {
					return nil, nil, fmt.Errorf("unexpected shard type %T", v)
				}
				b, err := sh.PaillierSecretKey().Public().MarshalCBOR()
				if err != nil {
					return nil, nil, err
				}
				random[fmt.Sprintf("paillier-key/%d", id)] = b
			}
			return random, nil, nil
		}},
		// controls (read the reader themselves, from two goroutines / GOMAXPROCS workers)
		{name: "keygen/paillier.SampleBlumSecretKey(512)", family: "keygen-paillier-blum", concurrent: true, sample: func(prng io.Reader) (map[string][]byte, map[string][]byte, error) {
			return paillierPK(paillier.SampleBlumSecretKey(512, prng))
		}},
		{name: "keygen/paillier.SampleSafeSecretKey(256)", family: "keygen-paillier-safe", concurrent: true, sample: func(prng io.Reader) (map[string][]byte, map[string][]byte, error) {
			return paillierPK(paillier.SampleSafeSecretKey(256, prng))
		}},
		{name: "keygen/intcom.SampleTrapdoorKey(256)", family: "keygen-ring-pedersen", concurrent: true, sample: func(prng io.Reader) (map[string][]byte, map[string][]byte, error) {
			k, err := intcom.SampleTrapdoorKey(256, prng)
			if err != nil {
				return nil, nil, err
			}
			b, err := k.CommitmentKey.MarshalCBOR()
			if err != nil {
				return nil, nil, err
			}
			return map[string][]byte{"ring-pedersen-key": b}, nil, nil
		}},
	}
}

var (
	findingOnce    sync.Once
	findingPresent bool
)

// primeFindingPresent: does nt.GeneratePrime succeed on a reader that always fails, without
// reading it? (once per process; a 64-bit prime costs microseconds)
func primeFindingPresent() bool {
	findingOnce.Do(func() {
		r := vlib.NewPRNG(1, "c07-finding-probe")
		r.StarveAfter(0)
		_, err := nt.GeneratePrime(num.NPlus(), 64, r)
		findingPresent = err == nil && r.Consumed() == 0
	})
	return findingPresent
}

var samplerList []*sampler

func allSamplers() []*sampler {
	if samplerList == nil {
		samplerList = append(samplerList, dealSamplers("k256", k256.NewCurve())...)
		samplerList = append(samplerList, dealSamplers("ed25519", edwards25519.NewPrimeSubGroup())...)
		samplerList = append(samplerList, dealSamplers("pallas", pasta.NewPallasCurve())...)
		samplerList = append(samplerList, elgamalSamplers("k256", k256.NewCurve())...)
		samplerList = append(samplerList, elgamalSamplers("pallas", pasta.NewPallasCurve())...)
		samplerList = append(samplerList, otherSamplers()...)
		samplerList = append(samplerList, keygenSamplers()...)
	}
	return samplerList
}

func sortedKeys(m map[string][]byte) []string {
	ks := make([]string, 0, len(m))
	for k := range m {
		ks = append(ks, k)
	}
	sort.Strings(ks)
	return ks
}

var (
	samplerSeen = map[string]uint64{}
)

// checkSampler: same stream => same everything; another stream => every sampled value differs;
// bytes are read from the given reader; a reader that fails early => error (no panic, no output);
// no sampled value repeats over the campaign under different streams.
func checkSampler(t vlib.Fataler, test string, s *sampler, s1, s2 uint64, mode string, frac float64) []string {
	t.Helper()
	if s1 == s2 {
		s2++
	}
	if s.known != "" && primeFindingPresent() {
		vlib.Excluded(s.known)
		return []string{"family=" + s.family, "excluded=" + s.known}
	}
	if s.concurrent {
		mode = "zero"
	}
	run := func(seed uint64, budget int64) (map[string][]byte, map[string][]byte, uint64, error) {
		prng := vlib.NewPRNG(seed, "c07-sampler/"+s.name)
		if budget >= 0 {
			prng.StarveAfter(budget)
		}
		var r, p map[string][]byte
		var err error
		vlib.NoPanic(t, s.name, func() { r, p, err = s.sample(prng) })
		return r, p, prng.Consumed(), err
	}
	r1, p1, n1, err := run(s1, -1)
	if err != nil {
		t.Fatalf("%s: failed with an unlimited reader (seed %#x): %v", s.name, s1, err)
	}
	r1b, p1b, n1b, err := run(s1, -1)
	if err != nil {
		t.Fatalf("%s: failed with an unlimited reader (seed %#x): %v", s.name, s1, err)
	}
	r2, _, n2, err := run(s2, -1)
	if err != nil {
		t.Fatalf("%s: failed with an unlimited reader (seed %#x): %v", s.name, s2, err)
	}
	if n1 == 0 || n2 == 0 {
		t.Fatalf("P6 %s: completed without reading a byte from the supplied random source", s.name)
	}
	if n1 != n1b && !s.concurrent {
		t.Fatalf("P5 %s: two runs on the same stream (seed %#x) read %d resp. %d bytes", s.name, s1, n1, n1b)
	}
	for _, k := range sortedKeys(r1) {
		if !bytes.Equal(r1[k], r1b[k]) && !s.concurrent {
			t.Fatalf("P5 %s: %s differs between two runs on the SAME stream (seed %#x): %s vs %s - it does not (only) come from the supplied reader", s.name, k, s1, vlib.Hex(r1[k]), vlib.Hex(r1b[k]))
		}
		v2, ok := r2[k]
		if !ok {
			t.Fatalf("%s: %s missing in the run on the second stream", s.name, k)
		}
		if bytes.Equal(r1[k], v2) {
			t.Fatalf("P1 %s: %s = %s is the same under two different streams (seeds %#x, %#x) with the same inputs: it does not depend on the supplied randomness", s.name, k, vlib.Hex(v2), s1, s2)
		}
	}
	for _, k := range sortedKeys(p1) {
		if !bytes.Equal(p1[k], p1b[k]) && !s.concurrent {
			t.Fatalf("P5 %s: %s differs between two runs on the same stream", s.name, k)
		}
	}
	// P3
	if !vlib.Replaying() {
		for seed, r := range map[uint64]map[string][]byte{s1: r1, s2: r2} {
			for k, v := range r {
				key := s.name + "|" + k + "|" + string(v)
				seenMu.Lock()
				prev, ok := samplerSeen[key]
				if !ok {
					samplerSeen[key] = seed
				}
				seenMu.Unlock()
				if ok && prev != seed {
					t.Fatalf("P3 %s: %s = %s repeats under different streams (seeds %#x and %#x)", s.name, k, vlib.Hex(v), prev, seed)
				}
			}
		}
	}
	// P4
	var budget int64
	switch mode {
	case "zero":
		budget = 0
	case "one-byte-short":
		budget = int64(n1) - 1
	case "half":
		budget = int64(n1 / 2)
	default:
		budget = int64(float64(n1) * frac)
		if budget >= int64(n1) {
			budget = int64(n1) - 1
		}
	}
	rs, _, ns, err := run(s1, budget)
	if err == nil {
		t.Fatalf("P4 %s: SUCCEEDED (%d values, %d bytes read) although the reader fails after %d of the %d bytes the same call consumed with an unlimited reader: a failing random source was ignored", s.name, len(rs), ns, budget, n1)
	}
	vlib.Class(test, fmt.Sprintf("bytes/%s=%s", s.family, bucket(n1)))
	return []string{"family=" + s.family, "mode=" + mode}
}

func TestSamplers(t *testing.T) {
	const test = "Samplers"
	list := allSamplers()
	vlib.Check(t, 1200, func(t *rapid.T) {
		s := list[pick(t, "sampler", len(list))]
		s1 := rapid.Uint64().Draw(t, "seed1")
		s2 := rapid.Uint64().Draw(t, "seed2")
		mode := starveModes[pick(t, "mode", len(starveModes))]
		frac := rapid.Float64Range(0, 0.999).Draw(t, "fraction")
		classes := checkSampler(t, test, s, s1, s2, mode, frac)
		vlib.Case(test, vlib.Desc(s.name, mode), true, classes...)
	})
}

// TestEverySampler runs every sampler once per starvation mode (sharded).
func TestEverySampler(t *testing.T) {
	const test = "EverySampler"
	idx := 0
	for _, s := range allSamplers() {
		for m, mode := range starveModes[:3] {
			idx++
			if !vlib.Mine(idx) {
				continue
			}
			classes := checkSampler(t, test, s, vlib.Seed()*31+uint64(idx), vlib.Seed()*37+uint64(idx)+1, mode, 0)
			vlib.Case(test, vlib.Desc(s.name, m), true, classes...)
		}
	}
	vlib.Exhaustive(fmt.Sprintf("every non-protocol sampler (%d: KW / Feldman / Pedersen / trusted dealing x 4 access structures x 3 groups x 3 secrets, hash and Pedersen commitments and keys, ElGamal key generation and encryption, Paillier encryption) x 3 starvation modes", len(allSamplers())))
}

// TestBoldyrevaControl: the deterministic control. Boldyreva BLS cosigners take NO random source
// at all (consumption 0 by construction) and two independently built cosigners produce the same
// partial signature for the same shard and message; different messages give different ones.
func TestBoldyrevaControl(t *testing.T) {
	const test = "BoldyrevaControl"
	if !vlib.Mine(3) {
		t.Skip("runs on one shard")
	}
	type g1 = *bls12381.PointG1
	p, raw := thr23()
	shards, err := proto.GroupByName("bls12381g1").Deal(mustAC(p, raw), vlib.NewPRNG(79, "c07-bls-dealer"))
	if err != nil {
		t.Fatalf("dealer: %v", err)
	}
	for _, alg := range []bls.RogueKeyPreventionAlgorithm{bls.Basic, bls.MessageAugmentation, bls.POP} {
		for _, q := range [][]proto.ID{{1, 2}, {1, 2, 3}} {
			sign := func(ctxSeed uint64, id proto.ID, msg []byte) []byte {
				ctxs, err := proto.Contexts(q, ctxSeed, "boldyreva")
				if err != nil {
					t.Fatalf("contexts: %v", err)
				}
				base, ok := shards[id].(*mpc.BaseShard[g1, *bls12381.Scalar])
				if !ok {
					t.Fatalf("unexpected shard type %T", shards[id])
				}
				sh, err := keygen.NewShortKeyShard(base)
				if err != nil {
					t.Fatalf("NewShortKeyShard: %v", err)
				}
				cs, err := signing.NewShortKeyCosigner(ctxs[id], &bls12381.FamilyTrait{}, sh, alg)
				if err != nil {
					t.Fatalf("NewShortKeyCosigner: %v", err)
				}
				ps, err := cs.ProducePartialSignature(msg)
				if err != nil {
					t.Fatalf("ProducePartialSignature: %v", err)
				}
				b, err := serde.MarshalCBOR(ps)
				if err != nil {
					t.Fatalf("encoding: %v", err)
				}
				return b
			}
			for _, id := range q {
				a := sign(1, id, defaultMsgs[0])
				b := sign(1, id, defaultMsgs[0])
				c := sign(2, id, defaultMsgs[0])
				d := sign(1, id, defaultMsgs[1])
				if !bytes.Equal(a, b) || !bytes.Equal(a, c) {
					t.Fatalf("control: Boldyreva partial signature of party %d (alg %d) is not a function of (shard, message)", id, alg)
				}
				if bytes.Equal(a, d) {
					t.Fatalf("control: Boldyreva partial signatures of two messages coincide")
				}
				vlib.Case(test, vlib.Desc("boldyreva", alg, len(q), id), false, "control=deterministic,no-reader")
			}
		}
	}
}
