package c07

import (
	"bytes"
	"crypto/sha256"
	"fmt"
	"hash/fnv"
	"math/bits"
	"sort"
	"sync"

	"verif/harness/vlib"
	"verif/harness/vlib/proto"
)

// caseParams is one drawn case: a scenario, the position whose stream changes (or is starved),
// what is REUSED across cases (session seed and message from small sets, the key material of
// the scenario) and what is fresh (the random streams).
type caseParams struct {
	sc      *scenario
	pos     int // index into sc.positions
	ctxSeed uint64
	msgIdx  int
	base    uint64 // all parties' stream seeds derive from it
	alt     uint64 // the replacement seed of the party at pos
}

func (c caseParams) party() proto.ID { return c.sc.positions[c.pos] }
func (c caseParams) msg() []byte     { return c.sc.msgs[c.msgIdx%len(c.sc.msgs)] }

func partySeed(base uint64, id proto.ID) uint64 {
	h := fnv.New64a()
	fmt.Fprintf(h, "c07/%d/%d", base, id)
	return h.Sum64()
}

func (c caseParams) seeds() map[proto.ID]uint64 {
	m := map[proto.ID]uint64{}
	for _, id := range c.sc.parties {
		m[id] = partySeed(c.base, id)
	}
	return m
}

func (c caseParams) String() string {
	return fmt.Sprintf("scenario=%s party=%d ctxSeed=%d msg#%d base=%#x alt=%#x", c.sc.name, c.party(), c.ctxSeed, c.msgIdx, c.base, c.alt)
}

// ---- P3: the campaign-wide seen-set ---------------------------------------------------------------

var (
	seenMu sync.Mutex
	seen   = map[string]string{} // scenario | kind | digest of the value  ->  tag of the streams that produced it
)

// record notes that value (a nonce commitment, R, r, a DKG contribution, a session identifier ...)
// was produced by the streams named tag; the same value under different streams is a violation.
func record(t vlib.Fataler, sc *scenario, kind string, value []byte, tag string, c caseParams) {
	t.Helper()
	if vlib.Replaying() {
		return // a replay sees one case only; the set is a property of the campaign
	}
	d := sha256.Sum256(value)
	key := fmt.Sprintf("%s|%s|%x", sc.name, kind, d[:16])
	seenMu.Lock()
	prev, ok := seen[key]
	if !ok {
		seen[key] = tag
	}
	seenMu.Unlock()
	if ok && prev != tag {
		t.Fatalf("P3 %s: %s = %s repeats between runs whose random streams differ (streams %s earlier, %s now; same key material, messages and session seeds are reused on purpose): it does not come from the party's randomness [%v]",
			sc.name, kind, vlib.Hex(value), prev, tag, c)
	}
}

func recordRun(t vlib.Fataler, sc *scenario, res *runResult, seeds map[proto.ID]uint64, random map[string][]byte, c caseParams) {
	t.Helper()
	for _, id := range sc.positions {
		if _, d, _, ok := firstRound(res.log, id); ok {
			record(t, sc, fmt.Sprintf("first-round message of party %d", id), d, fmt.Sprintf("%x", seeds[id]), c)
		}
	}
	all := seedsTag(seeds)
	for name, v := range random {
		record(t, sc, name, v, all, c)
	}
}

// honest runs a scenario without interference and demands that it succeeds.
func honest(t vlib.Fataler, sc *scenario, sp runSpec, c caseParams) (*runResult, map[string][]byte, map[string][]byte) {
	t.Helper()
	res, err := runScenario(sc, sp)
	if err != nil {
		t.Fatalf("%v [%v]", err, c)
	}
	if err := res.ok(); err != nil {
		t.Fatalf("%s: honest run failed: %v [%v]", sc.name, err, c)
	}
	random, fixed, err := sc.joint(res.outs(), sp.msg)
	if err != nil {
		t.Fatalf("%s: honest run gave unusable outputs: %v [%v]", sc.name, err, c)
	}
	return res, random, fixed
}

func bucket(n uint64) string {
	if n == 0 {
		return "0"
	}
	return fmt.Sprintf("2^%d", bits.Len64(n)-1)
}

// ---- P1, P2, P3, P6: paired runs ----------------------------------------------------------------------

// checkPaired runs the scenario twice; the second run differs ONLY in the random stream of one
// party. Returns the class labels of the case.
func checkPaired(t vlib.Fataler, test string, c caseParams) []string {
	t.Helper()
	sc, i := c.sc, c.party()
	seedsA := c.seeds()
	seedsB := c.seeds()
	seedsB[i] = c.alt
	if seedsA[i] == seedsB[i] {
		seedsB[i]++
	}
	A, randA, fixA := honest(t, sc, runSpec{ctxSeed: c.ctxSeed, msg: c.msg(), seeds: seedsA}, c)
	B, randB, fixB := honest(t, sc, runSpec{ctxSeed: c.ctxSeed, msg: c.msg(), seeds: seedsB}, c)
	classes := []string{"scenario=" + sc.name, "family=" + sc.family}

	// P6: every party that is specified to sample consumed bytes of ITS reader
	for _, run := range []*runResult{A, B} {
		for _, id := range sc.positions {
			n := run.parties[id].consumed
			if n == 0 {
				t.Fatalf("P6 %s: party %d completed the protocol without reading a single byte from the random source it was given [%v]", sc.name, id, c)
			}
		}
	}
	for _, id := range sc.parties {
		vlib.Class(test, fmt.Sprintf("bytes/%s=%s", sc.name, bucket(A.parties[id].consumed)))
	}
	cons := map[string]uint64{}
	for _, id := range sc.parties {
		cons[fmt.Sprint(id)] = A.parties[id].consumed
	}
	vlib.Sample("consumption/"+sc.name, map[string]any{"scenario": sc.name, "bytes_read_per_party": cons, "wire_messages": len(A.log)})

	// P1a: the party's first randomised message changes
	rA, dA, nA, okA := firstRound(A.log, i)
	rB, dB, _, okB := firstRound(B.log, i)
	if !okA || !okB {
		t.Fatalf("%s: party %d never sent a message [%v]", sc.name, i, c)
	}
	if rA != rB {
		t.Fatalf("%s: party %d first sends in round %q resp. %q [%v]", sc.name, i, rA, rB, c)
	}
	if bytes.Equal(dA, dB) {
		t.Fatalf("P1 %s: the %d message(s) party %d sends in its first round (%s) are byte-identical although ONLY its random stream changed (seed %#x -> %#x): they do not depend on the party's randomness [%v]",
			sc.name, nA, i, rA, seedsA[i], seedsB[i], c)
	}
	// P1b: the joint values that are meant to be random change, the others stay
	var names []string
	for name := range randA {
		names = append(names, name)
	}
	sort.Strings(names)
	for _, name := range names {
		vb, ok := randB[name]
		if !ok {
			t.Fatalf("%s: joint value %s missing in the second run [%v]", sc.name, name, c)
		}
		if bytes.Equal(randA[name], vb) {
			t.Fatalf("P1 %s: joint value %s = %s did not change although the random stream of party %d changed (seed %#x -> %#x): party %d's randomness does not enter it [%v]",
				sc.name, name, vlib.Hex(vb), i, seedsA[i], seedsB[i], i, c)
		}
	}
	for name, va := range fixA {
		if !bytes.Equal(va, fixB[name]) {
			t.Fatalf("%s: %s changed with the random stream of party %d (%s -> %s) [%v]", sc.name, name, i, vlib.Hex(va), vlib.Hex(fixB[name]), c)
		}
	}

	// P2: locality - the first-round messages of the others, sent before anything of i is received
	first := ""
	for _, m := range A.log {
		first = m.Round()
		break
	}
	p2 := 0
	for _, j := range sc.parties {
		if j == i {
			continue
		}
		rjA, djA, _, okA := firstRound(A.log, j)
		rjB, djB, _, okB := firstRound(B.log, j)
		if !okA || !okB || rjA != first || rjB != first {
			vlib.Class(test, "p2=skipped:not-in-the-opening-round")
			continue
		}
		if !sc.firstDet {
			vlib.Class(test, "p2=skipped:first-message-not-replayable(concurrent reads)")
			continue
		}
		if !bytes.Equal(djA, djB) {
			t.Fatalf("P2 %s: the opening-round message of party %d changed although only the random stream of party %d changed: random streams are confused between parties [%v]", sc.name, j, i, c)
		}
		p2++
	}
	if p2 > 0 {
		vlib.Class(test, "p2=asserted")
	}

	// P7: per-recipient freshness of private messages
	checkRecipientFreshness(t, test, sc, A.log, c)
	checkRecipientFreshness(t, test, sc, B.log, c)

	// P3
	recordRun(t, sc, A, seedsA, randA, c)
	recordRun(t, sc, B, seedsB, randB, c)
	return classes
}

// ---- P5: replay determinism -----------------------------------------------------------------------------

func checkReplay(t vlib.Fataler, test string, c caseParams) []string {
	t.Helper()
	sc := c.sc
	if !sc.sequential {
		t.Fatalf("harness: %s is not admitted to the replay oracle", sc.name)
	}
	sp := runSpec{ctxSeed: c.ctxSeed, msg: c.msg(), seeds: c.seeds()}
	A, randA, _ := honest(t, sc, sp, c)
	B, _, _ := honest(t, sc, sp, c)
	if !bytes.Equal(wireMultiset(A.log), wireMultiset(B.log)) {
		t.Fatalf("P5 %s: two runs with IDENTICAL random streams, session, key material and message put different bytes on the wire (%s): some value does not come from the supplied readers [%v]",
			sc.name, firstDifference(A.log, B.log), c)
	}
	for _, id := range sc.parties {
		oa, err := sc.encode(id, A.parties[id].out)
		if err != nil {
			t.Fatalf("%s: encoding the output of party %d: %v [%v]", sc.name, id, err, c)
		}
		ob, err := sc.encode(id, B.parties[id].out)
		if err != nil {
			t.Fatalf("%s: encoding the output of party %d: %v [%v]", sc.name, id, err, c)
		}
		if !bytes.Equal(oa, ob) {
			t.Fatalf("P5 %s: two runs with identical random streams gave party %d different outputs (%s vs %s) [%v]", sc.name, id, vlib.Hex(oa), vlib.Hex(ob), c)
		}
		if A.parties[id].consumed != B.parties[id].consumed {
			t.Fatalf("P5 %s: two runs with identical random streams read %d resp. %d bytes from the reader of party %d [%v]", sc.name, A.parties[id].consumed, B.parties[id].consumed, id, c)
		}
	}
	recordRun(t, sc, A, sp.seeds, randA, c)
	return []string{"scenario=" + sc.name, "family=" + sc.family}
}

// ---- P4: starved reader ------------------------------------------------------------------------------------

var starveModes = []string{"zero", "one-byte-short", "half", "drawn"}

// checkStarved first counts what the party consumes, then gives it a reader that fails before
// that budget is served. frac in [0,1) is used by mode "drawn".
func checkStarved(t vlib.Fataler, test string, c caseParams, mode string, frac float64) []string {
	t.Helper()
	sc, i := c.sc, c.party()
	sp := runSpec{ctxSeed: c.ctxSeed, msg: c.msg(), seeds: c.seeds()}
	C, randC, _ := honest(t, sc, sp, c)
	need := C.parties[i].consumed
	if need == 0 {
		t.Fatalf("P6 %s: party %d completed the protocol without reading from its random source [%v]", sc.name, i, c)
	}
	var budget int64
	switch mode {
	case "zero":
		budget = 0
	case "one-byte-short":
		budget = int64(need) - 1
	case "half":
		budget = int64(need / 2)
	default:
		budget = int64(float64(need) * frac)
		if budget >= int64(need) {
			budget = int64(need) - 1
		}
	}
	sp.starve = map[proto.ID]int64{i: budget}
	sp.watch = i
	S, err := runScenario(sc, sp)
	if err != nil {
		t.Fatalf("%v [%v]", err, c)
	}
	what := fmt.Sprintf("reader of party %d fails after %d of the %d bytes the same run consumed with an unlimited reader", i, budget, need)
	for _, id := range sc.parties {
		if p := S.parties[id]; p.panicked != nil {
			t.Fatalf("P4 %s: party %d PANICKED when the %s: %v\n%s [%v]", sc.name, id, what, p.panicked, p.stack, c)
		}
	}
	if S.hung {
		t.Fatalf("P4 %s: the run did not terminate when the %s [%v]", sc.name, what, c)
	}
	p := S.parties[i]
	classes := []string{"scenario=" + sc.name, "family=" + sc.family, "mode=" + mode}
	switch {
	case p.buildErr != nil:
		classes = append(classes, "outcome=constructor-refused")
	case p.cancelled:
		// another party gave up first and the run was stopped: no verdict of party i
		classes = append(classes, "outcome=no-verdict(cancelled)")
	case p.err != nil:
		classes = append(classes, "outcome=error")
	default:
		if sc.consDet {
			t.Fatalf("P4 %s: party %d COMPLETED SUCCESSFULLY although the %s (it read %d bytes): a failing random source was ignored or replaced [%v]",
				sc.name, i, what, p.consumed, c)
		}
		classes = append(classes, "outcome=completed(consumption-not-replayable)")
	}
	recordRun(t, sc, C, sp.seeds, randC, c)
	return classes
}
