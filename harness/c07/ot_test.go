package c07

import (
	"bytes"
	"crypto/sha256"
	"fmt"
	"io"
	"testing"

	"pgregory.net/rapid"

	"github.com/bronlabs/bron-crypto/pkg/base/curves/k256"
	"github.com/bronlabs/bron-crypto/pkg/base/serde"
	"github.com/bronlabs/bron-crypto/pkg/ot"
	"github.com/bronlabs/bron-crypto/pkg/ot/base/ecbbot"
	"github.com/bronlabs/bron-crypto/pkg/ot/base/vsot"
	"github.com/bronlabs/bron-crypto/pkg/ot/extension/softspoken"
	"verif/harness/vlib"
	"verif/harness/vlib/proto"
)

// Oblivious transfer has no network runner: the two parties are driven round by round here, so
// the byte consumption is known PER ROUND and the starved reader can be aimed at a round.
//
// Party "S" is the OT sender, "R" the receiver. The choice bits are an INPUT (fixed patterns);
// what is sampled are the key-agreement scalars / POPF programming (ecbbot), the sender's secret
// and the receiver's per-instance scalars and the proofs (VSOT), the receiver's padding bits
// (SoftSpoken extension; its sender samples nothing).

type otMsg struct {
	from  string // "S" | "R"
	round string
	body  []byte
}

type otRun struct {
	msgs     []otMsg
	outs     map[string][]byte // named outputs (pads)
	consumed map[string]uint64
	perRound map[string]uint64 // "S:Round1" -> bytes read in that round
	failedAt string            // round that returned an error ("" = completed)
	err      error
}

type otProto struct {
	name     string
	samplers []string // parties that are specified to sample
	// outputsDepend: do the OT pads depend on the random streams (true for base OTs; the
	// extension's outputs are a function of base seeds, choices and session only)?
	outputsDepend bool
	run           func(ctxSeed uint64, choices []byte, rs, rr *vlib.PRNG) *otRun
}

// step runs one round of one party, recording the bytes it read and its message.
func (r *otRun) step(who, round string, prng *vlib.PRNG, f func() (any, error)) bool {
	before := prng.Consumed()
	m, err := f()
	r.perRound[who+":"+round] = prng.Consumed() - before
	if err != nil {
		r.failedAt, r.err = who+":"+round, err
		return false
	}
	if m != nil {
		b, err := serde.MarshalCBOR(m)
		if err != nil {
			panic("harness: encoding " + round + ": " + err.Error())
		}
		r.msgs = append(r.msgs, otMsg{who, round, b})
	}
	return true
}

func newOTRun() *otRun {
	return &otRun{outs: map[string][]byte{}, consumed: map[string]uint64{}, perRound: map[string]uint64{}}
}

const otXi, otL = 16, 1

var otChoices = [][]byte{{0x00, 0x00}, {0xff, 0xff}, {0xa5, 0x3c}}

func otProtocols() []*otProto {
	ids := []proto.ID{1, 2}
	var out []*otProto

	// --- ecbbot over k256
	out = append(out, &otProto{name: "ecbbot-k256", samplers: []string{"S", "R"}, outputsDepend: true,
		run: func(ctxSeed uint64, choices []byte, rs, rr *vlib.PRNG) *otRun {
			res := newOTRun()
			defer func() { res.consumed["S"], res.consumed["R"] = rs.Consumed(), rr.Consumed() }()
			ctxs, err := proto.Contexts(ids, ctxSeed, "ecbbot")
			if err != nil {
				panic("harness: " + err.Error())
			}
			suite, err := ecbbot.NewSuite(otXi, otL, k256.NewCurve())
			if err != nil {
				panic("harness: " + err.Error())
			}
			var snd *ecbbot.Sender[*k256.Point, *k256.Scalar]
			var rcv *ecbbot.Receiver[*k256.Point, *k256.Scalar]
			if !res.step("S", "New", rs, func() (any, error) { snd, err = ecbbot.NewSender(ctxs[1], suite, rs); return nil, err }) {
				return res
			}
			if !res.step("R", "New", rr, func() (any, error) { rcv, err = ecbbot.NewReceiver(ctxs[2], suite, rr); return nil, err }) {
				return res
			}
			var r1 *ecbbot.Round1P2P[*k256.Point, *k256.Scalar]
			var r2 *ecbbot.Round2P2P[*k256.Point, *k256.Scalar]
			var ro *ecbbot.ReceiverOutput[*k256.Scalar]
			var so *ecbbot.SenderOutput[*k256.Scalar]
			if !res.step("S", "Round1", rs, func() (any, error) { r1, err = snd.Round1(); return r1, err }) {
				return res
			}
			if !res.step("R", "Round2", rr, func() (any, error) { r2, ro, err = rcv.Round2(r1, choices); return r2, err }) {
				return res
			}
			if !res.step("S", "Round3", rs, func() (any, error) { so, err = snd.Round3(r2); return nil, err }) {
				return res
			}
			var sb, rb []byte
			for i := range so.Messages {
				for l := range so.Messages[i][0] {
					sb = append(sb, so.Messages[i][0][l].Bytes()...)
					sb = append(sb, so.Messages[i][1][l].Bytes()...)
					rb = append(rb, ro.Messages[i][l].Bytes()...)
				}
			}
			res.outs["sender-pads"], res.outs["receiver-pads"] = sb, rb
			return res
		}})

	// --- VSOT over k256 / sha256
	flat := func(m [][]byte) []byte { return bytes.Join(m, nil) }
	out = append(out, &otProto{name: "vsot-k256", samplers: []string{"S", "R"}, outputsDepend: true,
		run: func(ctxSeed uint64, choices []byte, rs, rr *vlib.PRNG) *otRun {
			res := newOTRun()
			defer func() { res.consumed["S"], res.consumed["R"] = rs.Consumed(), rr.Consumed() }()
			ctxs, err := proto.Contexts(ids, ctxSeed, "vsot")
			if err != nil {
				panic("harness: " + err.Error())
			}
			suite, err := vsot.NewSuite(otXi, otL, k256.NewCurve(), sha256.New)
			if err != nil {
				panic("harness: " + err.Error())
			}
			type (
				P = *k256.Point
				B = *k256.BaseFieldElement
				S = *k256.Scalar
			)
			var snd *vsot.Sender[P, B, S]
			var rcv *vsot.Receiver[P, B, S]
			if !res.step("S", "New", rs, func() (any, error) { snd, err = vsot.NewSender(ctxs[1], suite, rs); return nil, err }) {
				return res
			}
			if !res.step("R", "New", rr, func() (any, error) { rcv, err = vsot.NewReceiver(ctxs[2], suite, rr); return nil, err }) {
				return res
			}
			var r1 *vsot.Round1P2P[P, B, S]
			var r2 *vsot.Round2P2P[P, B, S]
			var r3 *vsot.Round3P2P[P, B, S]
			var r4 *vsot.Round4P2P[P, B, S]
			var r5 *vsot.Round5P2P[P, B, S]
			var ro *vsot.ReceiverOutput
			var so *vsot.SenderOutput
			if !res.step("S", "Round1", rs, func() (any, error) { r1, err = snd.Round1(); return r1, err }) {
				return res
			}
			if !res.step("R", "Round2", rr, func() (any, error) { r2, ro, err = rcv.Round2(r1, choices); return r2, err }) {
				return res
			}
			if !res.step("S", "Round3", rs, func() (any, error) { r3, so, err = snd.Round3(r2); return r3, err }) {
				return res
			}
			if !res.step("R", "Round4", rr, func() (any, error) { r4, err = rcv.Round4(r3); return r4, err }) {
				return res
			}
			if !res.step("S", "Round5", rs, func() (any, error) { r5, err = snd.Round5(r4); return r5, err }) {
				return res
			}
			if !res.step("R", "Round6", rr, func() (any, error) { return nil, rcv.Round6(r5) }) {
				return res
			}
			var sb, rb []byte
			for i := range so.Messages {
				sb = append(sb, flat(so.Messages[i][0])...)
				sb = append(sb, flat(so.Messages[i][1])...)
				rb = append(rb, flat(ro.Messages[i])...)
			}
			res.outs["sender-pads"], res.outs["receiver-pads"] = sb, rb
			return res
		}})

	// --- SoftSpoken extension on constructed base seeds (as in the library's own test)
	{
		const kappa = softspoken.Kappa
		const xi, l = 128, 2
		seedPRNG := vlib.NewPRNG(13, "c07-softspoken-base-seeds")
		receiverSeeds := &vsot.ReceiverOutput{ReceiverOutput: ot.ReceiverOutput[[]byte]{Choices: make([]byte, kappa/8), Messages: make([][][]byte, kappa)}}
		senderSeeds := &vsot.SenderOutput{SenderOutput: ot.SenderOutput[[]byte]{Messages: make([][2][][]byte, kappa)}}
		_, _ = io.ReadFull(seedPRNG, receiverSeeds.Choices)
		for i := 0; i < kappa; i++ {
			m0, m1 := make([]byte, 32), make([]byte, 32)
			_, _ = io.ReadFull(seedPRNG, m0)
			_, _ = io.ReadFull(seedPRNG, m1)
			c := (receiverSeeds.Choices[i/8] >> (i % 8)) & 1
			senderSeeds.Messages[i][0], senderSeeds.Messages[i][1] = [][]byte{m0}, [][]byte{m1}
			receiverSeeds.Messages[i] = senderSeeds.Messages[i][c]
		}
		out = append(out, &otProto{name: "softspoken-ext", samplers: []string{"R"}, outputsDepend: false,
			run: func(ctxSeed uint64, choices []byte, rs, rr *vlib.PRNG) *otRun {
				res := newOTRun()
				defer func() { res.consumed["S"], res.consumed["R"] = rs.Consumed(), rr.Consumed() }()
				ctxs, err := proto.Contexts(ids, ctxSeed, "softspoken")
				if err != nil {
					panic("harness: " + err.Error())
				}
				suite, err := softspoken.NewSuite(xi, l, sha256.New)
				if err != nil {
					panic("harness: " + err.Error())
				}
				x := bytes.Repeat(choices, xi/8/len(choices))
				var snd *softspoken.Sender
				var rcv *softspoken.Receiver
				// the OT receiver of the extension holds the base SENDER seeds (roles are swapped)
				if !res.step("R", "New", rr, func() (any, error) {
					rcv, err = softspoken.NewReceiver(ctxs[2], senderSeeds, suite, rr)
					return nil, err
				}) {
					return res
				}
				if !res.step("S", "New", rs, func() (any, error) {
					snd, err = softspoken.NewSender(ctxs[1], receiverSeeds, suite, rs)
					return nil, err
				}) {
					return res
				}
				var r1 *softspoken.Round1P2P
				var ro *softspoken.ReceiverOutput
				var so *softspoken.SenderOutput
				if !res.step("R", "Round1", rr, func() (any, error) { r1, ro, err = rcv.Round1(x); return r1, err }) {
					return res
				}
				if !res.step("S", "Round2", rs, func() (any, error) { so, err = snd.Round2(r1); return nil, err }) {
					return res
				}
				var sb, rb []byte
				for i := range so.Messages {
					sb = append(sb, flat(so.Messages[i][0])...)
					sb = append(sb, flat(so.Messages[i][1])...)
					rb = append(rb, flat(ro.Messages[i])...)
				}
				res.outs["sender-pads"], res.outs["receiver-pads"] = sb, rb
				return res
			}})
	}
	return out
}

var otList []*otProto

func allOT() []*otProto {
	if otList == nil {
		otList = otProtocols()
	}
	return otList
}

func firstMsg(r *otRun, who string) []byte {
	for _, m := range r.msgs {
		if m.from == who {
			return m.body
		}
	}
	return nil
}

func sameMsgs(a, b []otMsg) (bool, string) {
	if len(a) != len(b) {
		return false, fmt.Sprintf("%d vs %d messages", len(a), len(b))
	}
	for i := range a {
		if a[i].from != b[i].from || a[i].round != b[i].round || !bytes.Equal(a[i].body, b[i].body) {
			return false, fmt.Sprintf("message %s:%s differs (%s vs %s)", a[i].from, a[i].round, vlib.Hex(a[i].body), vlib.Hex(b[i].body))
		}
	}
	return true, ""
}

// checkOT: P1, P2, P3, P5, P6 on paired runs and P4 aimed at one consuming round of party x.
func checkOT(t vlib.Fataler, test string, p *otProto, x string, ctxSeed uint64, choiceIdx int, seedS, seedR, alt uint64, roundPick uint64, mode string) []string {
	t.Helper()
	choices := otChoices[choiceIdx%len(otChoices)]
	run := func(ss, sr uint64, starve string, budget int64) *otRun {
		rs, rr := vlib.NewPRNG(ss, "c07-ot/"+p.name+"/S"), vlib.NewPRNG(sr, "c07-ot/"+p.name+"/R")
		if starve == "S" {
			rs.StarveAfter(budget)
		} else if starve == "R" {
			rr.StarveAfter(budget)
		}
		var r *otRun
		vlib.NoPanic(t, p.name, func() { r = p.run(ctxSeed, choices, rs, rr) })
		return r
	}
	what := fmt.Sprintf("%s party=%s ctxSeed=%d choices=%x seedS=%#x seedR=%#x alt=%#x", p.name, x, ctxSeed, choices, seedS, seedR, alt)
	A := run(seedS, seedR, "", 0)
	if A.err != nil {
		t.Fatalf("%s: honest run failed at %s: %v [%s]", p.name, A.failedAt, A.err, what)
	}
	// P6
	for _, w := range p.samplers {
		if A.consumed[w] == 0 {
			t.Fatalf("P6 %s: party %s completed without reading its random source [%s]", p.name, w, what)
		}
	}
	// P5: these round functions are single-threaded (no goroutine in pkg/ot); replay is asserted in every case
	A2 := run(seedS, seedR, "", 0)
	if ok, diff := sameMsgs(A.msgs, A2.msgs); !ok || A2.err != nil {
		t.Fatalf("P5 %s: two runs on identical streams differ: %s (err=%v) [%s]", p.name, diff, A2.err, what)
	}
	for k, v := range A.outs {
		if !bytes.Equal(v, A2.outs[k]) {
			t.Fatalf("P5 %s: output %s differs between two runs on identical streams [%s]", p.name, k, what)
		}
	}
	if A.consumed["S"] != A2.consumed["S"] || A.consumed["R"] != A2.consumed["R"] {
		t.Fatalf("P5 %s: byte consumption differs between two runs on identical streams [%s]", p.name, what)
	}
	// P1 / P2
	bs, br := seedS, seedR
	if x == "S" {
		bs = alt
		if bs == seedS {
			bs++
		}
	} else {
		br = alt
		if br == seedR {
			br++
		}
	}
	B := run(bs, br, "", 0)
	if B.err != nil {
		t.Fatalf("%s: honest run failed at %s: %v [%s]", p.name, B.failedAt, B.err, what)
	}
	if bytes.Equal(firstMsg(A, x), firstMsg(B, x)) {
		t.Fatalf("P1 %s: the first message of party %s is unchanged although only its random stream changed [%s]", p.name, x, what)
	}
	for k, v := range A.outs {
		if p.outputsDepend && bytes.Equal(v, B.outs[k]) {
			t.Fatalf("P1 %s: %s did not change although the random stream of party %s changed [%s]", p.name, k, x, what)
		}
		if !p.outputsDepend && !bytes.Equal(v, B.outs[k]) {
			t.Fatalf("%s: %s changed with the random stream of party %s although the extension's outputs are a function of base seeds, choices and session [%s]", p.name, k, x, what)
		}
	}
	other := map[string]string{"S": "R", "R": "S"}[x]
	if len(A.msgs) > 0 && A.msgs[0].from == other {
		// the other party moves first: its opening message is sent before anything of x is received
		if !bytes.Equal(firstMsg(A, other), firstMsg(B, other)) {
			t.Fatalf("P2 %s: the opening message of party %s changed although only the stream of party %s changed [%s]", p.name, other, x, what)
		}
		vlib.Class(test, "p2=asserted")
	}
	// P3
	if !vlib.Replaying() {
		for _, r := range []struct {
			run    *otRun
			ss, sr uint64
		}{{A, seedS, seedR}, {B, bs, br}} {
			for _, w := range p.samplers {
				seed := map[string]uint64{"S": r.ss, "R": r.sr}[w]
				key := fmt.Sprintf("ot|%s|first/%s|%x", p.name, w, sha256.Sum256(firstMsg(r.run, w)))
				seenMu.Lock()
				prev, ok := samplerSeen[key]
				if !ok {
					samplerSeen[key] = seed
				}
				seenMu.Unlock()
				if ok && prev != seed {
					t.Fatalf("P3 %s: the first message of party %s repeats under different streams (%#x, %#x) [%s]", p.name, w, prev, seed, what)
				}
			}
		}
	}
	// P4: aim at one consuming round of party x
	var rounds []string
	for _, m := range []string{"New", "Round1", "Round2", "Round3", "Round4", "Round5", "Round6"} {
		if A.perRound[x+":"+m] > 0 {
			rounds = append(rounds, m)
		}
	}
	if len(rounds) == 0 {
		t.Fatalf("P6 %s: party %s has no consuming round [%s]", p.name, x, what)
	}
	target := rounds[roundPick%uint64(len(rounds))]
	var before uint64
	for _, m := range []string{"New", "Round1", "Round2", "Round3", "Round4", "Round5", "Round6"} {
		if m == target {
			break
		}
		before += A.perRound[x+":"+m]
	}
	need := A.perRound[x+":"+target]
	budget := int64(before)
	switch mode {
	case "one-byte-short":
		budget += int64(need) - 1
	case "half":
		budget += int64(need / 2)
	}
	S := run(seedS, seedR, x, budget)
	if S.err == nil {
		t.Fatalf("P4 %s: the run COMPLETED although the reader of party %s fails after %d bytes (round %s starts after %d bytes and reads %d) [%s]", p.name, x, budget, target, before, need, what)
	}
	if S.failedAt != x+":"+target {
		t.Fatalf("P4 %s: the reader of party %s fails inside %s (after %d bytes) but the error surfaced at %s: %v [%s]", p.name, x, target, budget, S.failedAt, S.err, what)
	}
	vlib.Class(test, fmt.Sprintf("bytes/%s/%s=%s", p.name, x, bucket(A.consumed[x])))
	rc := map[string]uint64{}
	for k, v := range A.perRound {
		if v > 0 {
			rc[k] = v
		}
	}
	vlib.Sample("consumption/"+p.name, map[string]any{"protocol": p.name, "bytes_read_per_round": rc})
	return []string{"protocol=" + p.name, "party=" + x, "starved-round=" + target, "mode=" + mode}
}

func TestObliviousTransfer(t *testing.T) {
	const test = "ObliviousTransfer"
	list := allOT()
	vlib.Check(t, 160, func(t *rapid.T) {
		p := list[pick(t, "protocol", len(list))]
		x := p.samplers[pick(t, "party", len(p.samplers))]
		ctxSeed := uint64(1 + pick(t, "ctxSeed", 3))
		ci := pick(t, "choices", len(otChoices))
		mode := starveModes[pick(t, "mode", 3)]
		classes := checkOT(t, test, p, x, ctxSeed, ci, rapid.Uint64().Draw(t, "seedS"), rapid.Uint64().Draw(t, "seedR"),
			rapid.Uint64().Draw(t, "replacementSeed"), rapid.Uint64().Draw(t, "round"), mode)
		vlib.Case(test, vlib.Desc(classes), true, classes...)
	})
}
