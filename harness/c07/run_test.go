package c07

import (
	"bytes"
	"context"
	"crypto/sha256"
	"encoding/binary"
	"fmt"
	"runtime/debug"
	"sort"
	"sync"
	"time"

	"github.com/bronlabs/bron-crypto/pkg/network"
	"verif/harness/vlib"
	"verif/harness/vlib/netsim"
	"verif/harness/vlib/proto"
)

// runSpec says how one run of a scenario is parameterised. Everything that is random in a run
// comes from seeds: one SHAKE stream per party (proto.PartyPRNG(seed, scenario label, id)).
type runSpec struct {
	ctxSeed uint64
	msg     []byte
	seeds   map[proto.ID]uint64
	// starve: party -> byte budget after which its reader fails (absent = unlimited).
	starve map[proto.ID]int64
	// watch: when this party finishes with an error or a panic the other parties are cancelled
	// at once (they would wait for it forever); 0 = none.
	watch proto.ID
}

type partyResult struct {
	out       any
	err       error
	buildErr  error // the constructor refused (only legitimate for a starved party)
	panicked  any
	stack     string
	cancelled bool
	consumed  uint64
}

type runResult struct {
	log     []*netsim.Msg
	parties map[proto.ID]*partyResult
	hung    bool
	wall    time.Duration
}

// ok reports whether every party produced an output.
func (r *runResult) ok() error {
	if r.hung {
		return fmt.Errorf("run did not terminate")
	}
	ids := make([]proto.ID, 0, len(r.parties))
	for id := range r.parties {
		ids = append(ids, id)
	}
	sort.Slice(ids, func(i, j int) bool { return ids[i] < ids[j] })
	for _, id := range ids {
		p := r.parties[id]
		switch {
		case p.panicked != nil:
			return fmt.Errorf("party %d panicked: %v\n%s", id, p.panicked, p.stack)
		case p.buildErr != nil:
			return fmt.Errorf("constructor of party %d failed: %v", id, p.buildErr)
		case p.err != nil:
			return fmt.Errorf("party %d failed: %v", id, p.err)
		}
	}
	return nil
}

func (r *runResult) outs() map[proto.ID]any {
	m := map[proto.ID]any{}
	for id, p := range r.parties {
		m[id] = p.out
	}
	return m
}

const (
	hardBound        = 10 * time.Minute
	idleAfterFailure = 8 * time.Second
)

// runScenario builds the runners of all parties from the spec and executes them over a fresh
// harness switch.
func runScenario(sc *scenario, sp runSpec) (*runResult, error) {
	build, err := sc.prepare(sp.ctxSeed, sp.msg)
	if err != nil {
		return nil, fmt.Errorf("scenario %s: preparing the run: %w", sc.name, err)
	}
	res := &runResult{parties: map[proto.ID]*partyResult{}}
	prngs := map[proto.ID]*vlib.PRNG{}
	runners := map[proto.ID]network.Runner[any]{}
	for _, id := range sc.parties {
		prng := proto.PartyPRNG(sp.seeds[id], sc.name, id)
		if b, ok := sp.starve[id]; ok {
			prng.StarveAfter(b)
		}
		prngs[id] = prng
		pr := &partyResult{}
		res.parties[id] = pr
		func() {
			defer func() {
				if p := recover(); p != nil {
					pr.panicked, pr.stack = p, string(debug.Stack())
				}
			}()
			r, err := build(id, prng)
			if err != nil {
				pr.buildErr = err
				return
			}
			runners[id] = r
		}()
	}
	if len(runners) != len(sc.parties) {
		// a constructor refused or panicked: the others could only wait; nothing is run
		for id, p := range res.parties {
			p.consumed = prngs[id].Consumed()
		}
		return res, nil
	}

	net := netsim.New(sc.parties)
	ctx, cancel := context.WithCancel(context.Background())
	defer cancel()
	routers := map[proto.ID]*network.Router{}
	for _, id := range sc.parties {
		routers[id] = network.NewRouter(net.Delivery(id))
	}
	var mu sync.Mutex
	var wg sync.WaitGroup
	watchDone := make(chan struct{})
	start := time.Now()
	for _, id := range sc.parties {
		wg.Add(1)
		go func(id proto.ID) {
			defer wg.Done()
			pr := res.parties[id]
			defer func() {
				if p := recover(); p != nil {
					mu.Lock()
					pr.panicked, pr.stack = p, string(debug.Stack())
					mu.Unlock()
				}
				if id == sp.watch {
					close(watchDone)
				}
			}()
			out, err := runners[id].Run(ctx, routers[id], func(network.Notification) {})
			mu.Lock()
			pr.out, pr.err = out, err
			if err != nil && ctx.Err() != nil {
				pr.cancelled = true
			}
			mu.Unlock()
		}(id)
	}
	all := make(chan struct{})
	go func() { wg.Wait(); close(all) }()
	stop := func() {
		cancel()
		net.Close()
		<-all
	}
	tick := time.NewTicker(10 * time.Millisecond)
	defer tick.Stop()
	watchSeen := false
loop:
	for {
		select {
		case <-all:
			break loop
		case <-watchDone:
			if !watchSeen {
				watchSeen = true
				mu.Lock()
				w := res.parties[sp.watch]
				failed := w.err != nil || w.panicked != nil
				mu.Unlock()
				if failed {
					stop()
					break loop
				}
			}
			select {
			case <-all:
				break loop
			case <-tick.C:
			}
		case <-tick.C:
		}
		if time.Since(start) > hardBound {
			res.hung = true
			stop()
			break loop
		}
		// a party gave up and the others wait for it: nothing more will happen
		mu.Lock()
		failed := false
		for _, p := range res.parties {
			if p.err != nil || p.panicked != nil {
				failed = true
			}
		}
		mu.Unlock()
		if failed && net.IdleFor() > idleAfterFailure && net.Pending() == 0 {
			stop()
			break loop
		}
	}
	for _, rt := range routers {
		rt.Close()
	}
	net.Close()
	res.wall = time.Since(start)
	res.log = net.Log()
	for id, p := range res.parties {
		p.consumed = prngs[id].Consumed()
	}
	return res, nil
}

// ---- observations on the wire log ------------------------------------------------------------

// firstRound returns the protocol round label of the first message party id sent and a digest of
// everything it sent in that round (all recipients; echo-round-2 acknowledgements, which only
// hash what others sent, are not part of it). ok is false if the party never sent anything.
func firstRound(log []*netsim.Msg, id proto.ID) (round string, digest []byte, n int, ok bool) {
	for _, m := range log {
		if m.From == id && m.Kind != netsim.Echo2 {
			round, ok = m.Round(), true
			break
		}
	}
	if !ok {
		return "", nil, 0, false
	}
	var items [][]byte
	for _, m := range log {
		if m.From == id && m.Kind != netsim.Echo2 && m.Round() == round {
			items = append(items, wireItem(m))
		}
	}
	return round, digestOf(items), len(items), true
}

func wireItem(m *netsim.Msg) []byte {
	var b bytes.Buffer
	var u [8]byte
	binary.BigEndian.PutUint64(u[:], uint64(m.From))
	b.Write(u[:])
	binary.BigEndian.PutUint64(u[:], uint64(m.To))
	b.Write(u[:])
	b.WriteString(m.CID)
	b.WriteByte(0)
	b.WriteByte(byte(m.Kind))
	b.Write(m.Body)
	return b.Bytes()
}

// digestOf hashes a multiset of byte strings (order-independent).
func digestOf(items [][]byte) []byte {
	sort.Slice(items, func(i, j int) bool { return bytes.Compare(items[i], items[j]) < 0 })
	h := sha256.New()
	var u [8]byte
	for _, it := range items {
		binary.BigEndian.PutUint64(u[:], uint64(len(it)))
		h.Write(u[:])
		h.Write(it)
	}
	return h.Sum(nil)
}

// wireMultiset is the digest of the whole log as a multiset of (from, to, correlation id, kind,
// body): goroutine scheduling may permute the order in which parties send.
func wireMultiset(log []*netsim.Msg) []byte {
	items := make([][]byte, 0, len(log))
	for _, m := range log {
		items = append(items, wireItem(m))
	}
	return digestOf(items)
}

// firstDifference names the first (from, to, round, kind) whose body differs between two logs.
func firstDifference(a, b []*netsim.Msg) string {
	key := func(m *netsim.Msg) string { return fmt.Sprintf("%d->%d %s %s", m.From, m.To, m.CID, m.Kind) }
	ma := map[string][]byte{}
	for _, m := range a {
		ma[key(m)] = m.Body
	}
	var keys []string
	mb := map[string][]byte{}
	for _, m := range b {
		mb[key(m)] = m.Body
		keys = append(keys, key(m))
	}
	for _, k := range keys {
		x, ok := ma[k]
		if !ok {
			return "message " + k + " exists only in the second run"
		}
		if !bytes.Equal(x, mb[k]) {
			return fmt.Sprintf("message %s differs: %s vs %s", k, vlib.Hex(x), vlib.Hex(mb[k]))
		}
	}
	if len(a) != len(b) {
		return fmt.Sprintf("logs have %d and %d messages", len(a), len(b))
	}
	return "no difference found by key (duplicate keys)"
}

func sortedIDs(m map[proto.ID]uint64) []proto.ID {
	ids := make([]proto.ID, 0, len(m))
	for id := range m {
		ids = append(ids, id)
	}
	sort.Slice(ids, func(i, j int) bool { return ids[i] < ids[j] })
	return ids
}

func seedsTag(m map[proto.ID]uint64) string {
	s := ""
	for _, id := range sortedIDs(m) {
		s += fmt.Sprintf("%d:%x;", id, m[id])
	}
	return s
}
