package c07

import (
	"fmt"
	"testing"

	"pgregory.net/rapid"

	"verif/harness/vlib"
)

// Property C07 on the protocols that have (or, for HJKY, are given) a network runner. All runs go
// over the harness switch (vlib/netsim): the wire log is the observation point for "the first
// randomised message of each party"; one SHAKE stream per party is the only randomness handed in.
//
//	P1  changing ONLY party i's stream changes i's first-round message and the joint random value
//	P2  ... and does not change the opening-round messages of the other parties (frozen list)
//	P3  campaign-wide: no first-round message / R / r / public key / session id repeats under different streams
//	P4  a reader that fails before the measured budget is served => error, never a panic, never an output
//	P5  identical streams => identical wire log (multiset) and outputs, for the frozen sequential list
//	P6  every sampling party reads > 0 bytes from ITS reader (reported per scenario)

// drawScenario draws a scenario by weight (quick tier: weight 0 = not drawn; thorough: every scenario).
func drawScenario(t *rapid.T, filter func(*scenario) bool) *scenario {
	var pool []*scenario
	for _, sc := range allScenarios() {
		if filter != nil && !filter(sc) {
			continue
		}
		w := sc.weight
		if vlib.Thorough() && w == 0 {
			w = 1
		}
		for k := 0; k < w; k++ {
			pool = append(pool, sc)
		}
	}
	return pool[pick(t, "scenario", len(pool))]
}

// pick draws an index in [0, n) with a flat distribution: rapid's integer generators favour
// small values and range bounds (measured: the first scenario of the pool was drawn in 45 % of
// the cases), which is right for sizes but wrong for a choice among equals. The drawn 64-bit
// value is mixed (splitmix64 finaliser) before the reduction; the case stays a function of the draw.
func pick(t *rapid.T, label string, n int) int {
	x := rapid.Uint64().Draw(t, label)
	x ^= x >> 30
	x *= 0xbf58476d1ce4e5b9
	x ^= x >> 27
	x *= 0x94d049bb133111eb
	x ^= x >> 31
	return int(x % uint64(n))
}

func drawCase(t *rapid.T, filter func(*scenario) bool) caseParams {
	sc := drawScenario(t, filter)
	c := caseParams{sc: sc}
	c.pos = pick(t, "position", len(sc.positions))
	c.ctxSeed = uint64(1 + pick(t, "ctxSeed", 3)) // small on purpose: sessions are reused
	c.msgIdx = pick(t, "message", len(sc.msgs))   // small on purpose: messages are reused
	c.base = rapid.Uint64().Draw(t, "baseSeed")
	c.alt = rapid.Uint64().Draw(t, "replacementSeed")
	return c
}

func TestPairedStreams(t *testing.T) {
	const test = "PairedStreams"
	vlib.Check(t, 110, func(t *rapid.T) {
		c := drawCase(t, nil)
		classes := checkPaired(t, test, c)
		vlib.Case(test, vlib.Desc(c.sc.name, c.pos, "paired"), true, classes...)
	})
}

func TestReplayDeterminism(t *testing.T) {
	const test = "ReplayDeterminism"
	vlib.Check(t, 60, func(t *rapid.T) {
		c := drawCase(t, func(sc *scenario) bool { return sc.sequential })
		classes := checkReplay(t, test, c)
		vlib.Case(test, vlib.Desc(c.sc.name, "replay"), true, classes...)
	})
}

func TestStarvedReader(t *testing.T) {
	const test = "StarvedReader"
	vlib.Check(t, 90, func(t *rapid.T) {
		c := drawCase(t, nil)
		mode := starveModes[pick(t, "mode", len(starveModes))]
		frac := rapid.Float64Range(0, 0.999).Draw(t, "fraction")
		classes := checkStarved(t, test, c, mode, frac)
		vlib.Case(test, vlib.Desc(c.sc.name, c.pos, "starved", mode), true, classes...)
	})
}

// TestEveryPosition enumerates every scenario x every sampling position (x 10 seeds in the
// thorough tier) for the paired and the starved check, and every admitted scenario for the replay
// check, so that no protocol depends on the luck of the draw. The expensive DKLs23-BBOT scenario
// gets one position per check in the quick tier.
func TestEveryPosition(t *testing.T) {
	const test = "EveryPosition"
	nSeeds := 1
	if vlib.Thorough() {
		nSeeds = 10
	}
	idx := 0
	for _, sc := range allScenarios() {
		for s := 0; s < nSeeds; s++ {
			for pos := range sc.positions {
				if sc.weight == 0 && !vlib.Thorough() && pos > 0 {
					continue
				}
				for _, kind := range []string{"paired", "starved", "replay"} {
					if kind == "replay" && (pos > 0 || !sc.sequential) {
						continue
					}
					idx++
					if !vlib.Mine(idx) {
						continue
					}
					c := caseParams{sc: sc, pos: pos, ctxSeed: uint64(1 + (s+pos)%3), msgIdx: (s + pos) % len(sc.msgs),
						base: vlib.Seed()*1_000_003 + uint64(1000*s+pos), alt: vlib.Seed()*7_000_003 + uint64(1000*s+pos) + 1}
					var classes []string
					desc := vlib.Desc(sc.name, pos, kind)
					switch kind {
					case "paired":
						classes = checkPaired(t, test, c)
					case "starved":
						mode := starveModes[(s+pos+len(sc.name))%3] // zero / one-byte-short / half
						classes = checkStarved(t, test, c, mode, 0)
						desc = vlib.Desc(sc.name, pos, kind, mode)
					case "replay":
						classes = checkReplay(t, test, c)
						desc = vlib.Desc(sc.name, kind)
					}
					vlib.Case(test, desc, true, append(classes, "kind="+kind)...)
				}
			}
		}
	}
	vlib.Exhaustive(fmt.Sprintf("every scenario (%d) x every sampling position x {paired, starved} and every replay-admitted scenario, %d seed(s)", len(allScenarios()), nSeeds))
}
