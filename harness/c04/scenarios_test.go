package c04

import (
	"bytes"
	"os"
	"strings"
	"crypto/ecdsa"
	"crypto/elliptic"
	"fmt"
	"math/big"
	"time"

	"github.com/bronlabs/bron-crypto/pkg/mpc/aor"
	"github.com/bronlabs/bron-crypto/pkg/mpc/session"
	"github.com/bronlabs/bron-crypto/pkg/network"
	"github.com/bronlabs/bron-crypto/pkg/proofs/sigma/compiler/fiatshamir"
	"github.com/bronlabs/bron-crypto/pkg/proofs/sigma/compiler/fischlin"
	"github.com/bronlabs/bron-crypto/pkg/transcripts/hagrid"
	"verif/harness/vlib"
	"verif/harness/vlib/policy"
	"verif/harness/vlib/proto"
	"verif/harness/vlib/refcurve"
)

// errAggregatorRejected is returned by a scenario's output check when every party completed but
// the aggregator refused to release a signature: that is a detection ("at least one honest
// party, or the aggregator, rejects"), not a violation.
var errAggregatorRejected = fmt.Errorf("aggregator rejected the partial signatures")

// A scenario is one protocol in one small configuration. Runners are rebuilt for every run
// (honest baseline, parallel session, faulty run) from plain seeds.
type scenario struct {
	name    string
	parties []proto.ID
	anchor  proto.ID // never the deviator (redistribution's trusted anchor); 0 = none
	idle    time.Duration
	runners func(ctxSeed uint64, seeds map[proto.ID]uint64) (map[proto.ID]network.Runner[any], error)
	// check judges the outputs of the parties that completed (S3): nil = fine / nothing to judge.
	check func(outs map[proto.ID]any) error
}

func thr23() (*policy.Policy, []uint64) {
	return &policy.Policy{Family: policy.Threshold, N: 3, T: 2}, []uint64{1, 2, 3}
}

func cnf3() (*policy.Policy, []uint64) {
	// maximal unqualified sets {0},{1},{2}... = 2-of-3 as a CNF (non-ideal: two rows per holder)
	return &policy.Policy{Family: policy.CNF, N: 3, MUS: []uint64{1, 2, 4}}, []uint64{7, 3, 40}
}

func scenarios() []*scenario {
	var out []*scenario
	k := proto.GroupByName("k256")

	// --- session setup
	{
		ids := []proto.ID{3, 9, 20}
		out = append(out, &scenario{
			name: "session", parties: ids, idle: 3 * time.Second,
			runners: func(_ uint64, seeds map[proto.ID]uint64) (map[proto.ID]network.Runner[any], error) {
				rs := map[proto.ID]network.Runner[any]{}
				for _, id := range ids {
					r, err := proto.Erase(session.NewSessionRunner(id, proto.SetOf(ids...), proto.PartyPRNG(seeds[id], "session", id)))
					if err != nil {
						return nil, err
					}
					rs[id] = r
				}
				return rs, nil
			},
			check: func(outs map[proto.ID]any) error {
				var sid *network.SID
				for id, o := range outs {
					c, ok := o.(*session.Context)
					if !ok || c == nil {
						return fmt.Errorf("party %d returned %T", id, o)
					}
					s := c.SessionID()
					if sid == nil {
						sid = &s
					} else if *sid != s {
						return fmt.Errorf("completed parties hold different session identifiers")
					}
				}
				return nil
			},
		})
	}
	// --- agree on random
	{
		ids := []proto.ID{1, 2, 3}
		out = append(out, &scenario{
			name: "aor", parties: ids, idle: 3 * time.Second,
			runners: func(ctxSeed uint64, seeds map[proto.ID]uint64) (map[proto.ID]network.Runner[any], error) {
				rs := map[proto.ID]network.Runner[any]{}
				for _, id := range ids {
					tape := hagrid.NewTranscript("c04-aor")
					tape.AppendBytes("seed", []byte(fmt.Sprint(ctxSeed)))
					r, err := proto.Erase(aor.NewAgreeOnRandomRunner(id, proto.SetOf(ids...), 32, tape, proto.PartyPRNG(seeds[id], "aor", id)))
					if err != nil {
						return nil, err
					}
					rs[id] = r
				}
				return rs, nil
			},
			check: func(outs map[proto.ID]any) error {
				var ref []byte
				for id, o := range outs {
					b, ok := o.([]byte)
					if !ok || len(b) != 32 {
						return fmt.Errorf("party %d returned %T", id, o)
					}
					if ref == nil {
						ref = b
					} else if !bytes.Equal(ref, b) {
						return fmt.Errorf("completed parties agreed on different random values")
					}
				}
				return nil
			},
		})
	}
	// --- DKGs
	for _, pc := range []struct {
		tag string
		f   func() (*policy.Policy, []uint64)
	}{{"thr23", thr23}, {"cnf3", cnf3}} {
		p, raw := pc.f()
		ids := proto.ToIDs(raw)
		for _, kind := range []string{"gennaro", "canetti"} {
			kind := kind
			out = append(out, &scenario{
				name: kind + "-" + pc.tag, parties: ids, idle: 6 * time.Second,
				runners: func(ctxSeed uint64, seeds map[proto.ID]uint64) (map[proto.ID]network.Runner[any], error) {
					ac, err := policy.Build(p, raw)
					if err != nil {
						return nil, err
					}
					ctxs, err := proto.Contexts(ids, ctxSeed, kind)
					if err != nil {
						return nil, err
					}
					rs := map[proto.ID]network.Runner[any]{}
					for _, id := range ids {
						var r network.Runner[any]
						if kind == "gennaro" {
							r, err = k.GennaroRunner(ctxs[id], ac, fiatshamir.Name, proto.PartyPRNG(seeds[id], kind, id))
						} else {
							r, err = k.CanettiRunner(ctxs[id], ac, proto.PartyPRNG(seeds[id], kind, id))
						}
						if err != nil {
							return nil, err
						}
						rs[id] = r
					}
					return rs, nil
				},
				check: func(outs map[proto.ID]any) error { return checkShards(k, outs, nil) },
			})
		}
	}
	// --- signing and redistribution on dealt keys
	p, raw := thr23()
	ids := proto.ToIDs(raw)
	ac, err := policy.Build(p, raw)
	if err != nil {
		panic(err)
	}
	shards, err := k.Deal(ac, vlib.NewPRNG(77, "c04-dealer"))
	if err != nil {
		panic(err)
	}
	pkInfo, _ := k.Info(shards[ids[0]])

	// Lindell22 BIP-340, quorum {1,3} and {1,2,3}
	bip := proto.SchnorrSigners()[0]
	for _, q := range [][]proto.ID{{1, 3}, {1, 2, 3}} {
		q := q
		msg := []byte("c04 message for lindell22")
		out = append(out, &scenario{
			name: fmt.Sprintf("lindell22-bip340-q%d", len(q)), parties: q, idle: 6 * time.Second,
			runners: func(ctxSeed uint64, seeds map[proto.ID]uint64) (map[proto.ID]network.Runner[any], error) {
				ctxs, err := proto.Contexts(q, ctxSeed, "l22")
				if err != nil {
					return nil, err
				}
				rs := map[proto.ID]network.Runner[any]{}
				for _, id := range q {
					r, err := bip.Runner(ctxs[id], shards[id], fiatshamir.Name, msg, proto.PartyPRNG(seeds[id], "l22", id))
					if err != nil {
						return nil, err
					}
					rs[id] = r
				}
				return rs, nil
			},
			check: func(outs map[proto.ID]any) error {
				if len(outs) < len(q) {
					return nil // not every partial signature exists: nothing to aggregate
				}
				sig, err := bip.Aggregate(shards[q[0]], msg, outs)
				if err != nil {
					return errAggregatorRejected // the aggregator refused: nothing was released
				}
				if err := bip.VerifyLib(shards[q[0]], msg, sig); err != nil {
					return fmt.Errorf("aggregator released a signature the library verifier rejects: %v", err)
				}
				c := refcurve.K256()
				P, _, err1 := c.DecodeSEC1(pkInfo.PK)
				R, _, err2 := c.DecodeSEC1(sig.R)
				if err1 != nil || err2 != nil {
					return fmt.Errorf("released signature does not decode in the reference model")
				}
				px, _ := c.AffineBytesBE(P)
				rx, _ := c.AffineBytesBE(R)
				s := make([]byte, 32)
				sig.S.FillBytes(s)
				if !refcurve.BIP340Verify(px, msg, append(rx, s...)) {
					return fmt.Errorf("aggregator released a signature that fails BIP-340 reference verification")
				}
				return nil
			},
		})
	}
	// DKLs23 SoftSpoken (and BBOT in the thorough tier), quorum {2,3}
	es := proto.ECDSASigners()[0] // k256 / sha256
	variants := []string{"softspoken"}
	if vlib.Thorough() {
		variants = append(variants, "bbot")
	}
	for _, variant := range variants {
		variant := variant
		q := []proto.ID{2, 3}
		msg := []byte("c04 message for dkls23")
		out = append(out, &scenario{
			name: "dkls23-" + variant, parties: q, idle: 20 * time.Second,
			runners: func(ctxSeed uint64, seeds map[proto.ID]uint64) (map[proto.ID]network.Runner[any], error) {
				ctxs, err := proto.Contexts(q, ctxSeed, "dkls")
				if err != nil {
					return nil, err
				}
				rs := map[proto.ID]network.Runner[any]{}
				for _, id := range q {
					r, err := es.DKLS23Runner(variant, ctxs[id], shards[id], msg, proto.PartyPRNG(seeds[id], "dkls", id))
					if err != nil {
						return nil, err
					}
					rs[id] = r
				}
				return rs, nil
			},
			check: func(outs map[proto.ID]any) error {
				var ps []any
				for _, id := range q {
					if o, ok := outs[id]; ok {
						ps = append(ps, o)
					}
				}
				if len(ps) < len(q) {
					return nil
				}
				sig, err := es.DKLS23Aggregate(shards[q[0]], msg, ps)
				if err != nil {
					return errAggregatorRejected
				}
				return verifyECDSA(es, shards[q[0]], msg, sig)
			},
		})
	}
	// Redistribution: refresh (same structure) and change to unanimity over {1,2,3} driven by {1,2}
	// "handover": the 2-of-3 key of {1,2,3} moves to a disjoint set {4,5,6} (2-of-3) without trusted
	// anchors - every recipient of the new shares is a next-only party, which has nothing but the
	// previous holders' claims to compare the new sharing with.
	for _, mode := range []string{"refresh", "to-unanimity", "refresh-anchored", "handover"} {
		mode := mode
		prev := []proto.ID{1, 2, 3}
		if mode == "to-unanimity" {
			prev = []proto.ID{1, 2}
		}
		var anchor proto.ID
		if mode == "refresh-anchored" {
			anchor = 1
		}
		all := []proto.ID{1, 2, 3}
		raw := raw
		if mode == "handover" {
			all = []proto.ID{1, 2, 3, 4, 5, 6}
			raw = []uint64{4, 5, 6}
		}
		out = append(out, &scenario{
			name: "redistribute-" + mode, parties: all, anchor: anchor, idle: 8 * time.Second,
			runners: func(ctxSeed uint64, seeds map[proto.ID]uint64) (map[proto.ID]network.Runner[any], error) {
				var nextP *policy.Policy
				if mode == "to-unanimity" {
					nextP = &policy.Policy{Family: policy.Unanimity, N: 3}
				} else {
					nextP, _ = thr23()
				}
				next, err := policy.Build(nextP, raw)
				if err != nil {
					return nil, err
				}
				ctxs, err := proto.Contexts(all, ctxSeed, "redist")
				if err != nil {
					return nil, err
				}
				rs := map[proto.ID]network.Runner[any]{}
				isPrev := map[proto.ID]bool{}
				for _, id := range prev {
					isPrev[id] = true
				}
				for _, id := range all {
					var ps any
					if isPrev[id] {
						ps = shards[id]
					}
					r, err := k.RedistributeRunner(ctxs[id], prev, ps, next, proto.PartyPRNG(seeds[id], "redist", id), anchor)
					if err != nil {
						return nil, err
					}
					rs[id] = r
				}
				return rs, nil
			},
			check: func(outs map[proto.ID]any) error {
				if mode == "handover" {
					// previous holders that are not next holders return no shard
					next := map[proto.ID]any{}
					for _, id := range proto.ToIDs(raw) {
						if o, ok := outs[id]; ok {
							next[id] = o
						}
					}
					outs = next
				}
				return checkShards(k, outs, pkInfo.PK)
			},
		})
	}
	// Lindell17 signing on dealt shards (1024-bit test keys)
	{
		shardsL, _, err := es.Lindell17Deal(ac, 1024, vlib.NewPRNG(78, "c04-l17-dealer"))
		if err != nil {
			panic(err)
		}
		q := []proto.ID{1, 2}
		msg := []byte("c04 message for lindell17")
		out = append(out, &scenario{
			name: "lindell17", parties: q, idle: 20 * time.Second,
			runners: func(ctxSeed uint64, seeds map[proto.ID]uint64) (map[proto.ID]network.Runner[any], error) {
				ctxs, err := proto.Contexts(q, ctxSeed, "l17")
				if err != nil {
					return nil, err
				}
				rp, err := es.Lindell17Runner(true, ctxs[1], shardsL[1], 2, fischlin.Name, msg, proto.PartyPRNG(seeds[1], "l17", 1))
				if err != nil {
					return nil, err
				}
				rs, err := es.Lindell17Runner(false, ctxs[2], shardsL[2], 1, fischlin.Name, msg, proto.PartyPRNG(seeds[2], "l17", 2))
				if err != nil {
					return nil, err
				}
				return map[proto.ID]network.Runner[any]{1: rp, 2: rs}, nil
			},
			check: func(outs map[proto.ID]any) error {
				for _, o := range outs {
					if o == nil {
						continue
					}
					sig, err := es.SigOf(o)
					if err != nil {
						continue
					}
					if err := verifyECDSA(es, shardsL[1], msg, sig); err != nil {
						return err
					}
				}
				return nil
			},
		})
	}
	// CGGMP21 signing on the dealt 2-of-3 key, auxiliary information (Paillier-Blum and ring-Pedersen
	// keys) from prime fixtures, the full holder set {1,2,3} as quorum so that two honest parties judge
	// the third. Expensive (several seconds per run). NOT YET PART OF THE CHECK: the free-list of this
	// protocol (which leaves a sender may legitimately choose afresh) has to be established with the
	// enumerated survey on the unchanged tree first (C04_SURVEY=1 C04_SCENARIOS=cggmp21); until that
	// triage is complete the scenario is only built with C04_CGGMP21=1 (development) so that an
	// incomplete free-list can never raise an alarm in a registered command.
	if cggmpEnabled() {
		out = append(out, cggmp21Scenario(es, shards, ids))
	}
	return out
}

func cggmpEnabled() bool { return os.Getenv("C04_CGGMP21") != "" }

func cggmp21Scenario(es proto.ECDSASigner, baseShards map[proto.ID]any, q []proto.ID) *scenario {
	shardsC, err := es.CGGMP21Shards(baseShards)
	if err != nil {
		panic(err)
	}
	msg := []byte("c04 message for cggmp21")
	return &scenario{
		name: "cggmp21", parties: q, idle: 60 * time.Second,
		runners: func(ctxSeed uint64, seeds map[proto.ID]uint64) (map[proto.ID]network.Runner[any], error) {
			ctxs, err := proto.Contexts(q, ctxSeed, "cggmp21")
			if err != nil {
				return nil, err
			}
			rs := map[proto.ID]network.Runner[any]{}
			for _, id := range q {
				r, err := es.CGGMP21Runner(ctxs[id], shardsC[id], msg, proto.PartyPRNG(seeds[id], "cggmp21", id))
				if err != nil {
					return nil, err
				}
				rs[id] = r
			}
			return rs, nil
		},
		check: func(outs map[proto.ID]any) error {
			if len(outs) < len(q) {
				return nil // a partial signature is missing: nothing can be aggregated
			}
			// every party's cosigning aggregator (the stateless one is documented as "for already
			// validated partial signatures" and is part of CGGMP21Finish on honest inputs only;
			// here all partial signatures come from parties that completed, so it applies too)
			sig, err := es.CGGMP21Finish(outs)
			if err != nil {
				if strings.Contains(err.Error(), "AGGREGATORS-DISAGREE") {
					return fmt.Errorf("aggregators released different signatures: %v", err)
				}
				return errAggregatorRejected
			}
			return verifyECDSA(es, shardsC[q[0]], msg, sig)
		},
	}
}

// checkShards: all given shards agree on the public key (and on wantPK if given), and each
// private share lifts to its published public share.
func checkShards(g proto.Group, outs map[proto.ID]any, wantPK []byte) error {
	var pk []byte
	for id, o := range outs {
		info, err := g.Info(o)
		if err != nil {
			return fmt.Errorf("party %d returned an unreadable shard: %v", id, err)
		}
		if pk == nil {
			pk = info.PK
		} else if !bytes.Equal(pk, info.PK) {
			return fmt.Errorf("completed parties report different public keys")
		}
		if wantPK != nil && !bytes.Equal(wantPK, info.PK) {
			return fmt.Errorf("party %d accepted a shard for a different public key than before the redistribution", id)
		}
		ok, err := g.LiftedShareMatches(o)
		if err != nil || !ok {
			return fmt.Errorf("party %d returned a share inconsistent with the public key share it reports (err=%v)", id, err)
		}
	}
	return nil
}

func verifyECDSA(sg proto.ECDSASigner, shard any, msg []byte, sig *proto.ECDSASig) error {
	pku, err := sg.PKUncompressed(shard)
	if err != nil || len(pku) != 65 {
		return fmt.Errorf("cannot read public key: %v", err)
	}
	h := sg.HashFunc()()
	h.Write(msg)
	digest := h.Sum(nil)
	x, y := new(big.Int).SetBytes(pku[1:33]), new(big.Int).SetBytes(pku[33:])
	if sg.Curve() == "p256" {
		if !ecdsa.Verify(&ecdsa.PublicKey{Curve: elliptic.P256(), X: x, Y: y}, digest, sig.R, sig.S) {
			return fmt.Errorf("released signature %v fails crypto/ecdsa verification", sig)
		}
		return nil
	}
	c := refcurve.K256()
	Q, err := c.FromAffine(x, y)
	if err != nil {
		return fmt.Errorf("public key not on curve in the reference model")
	}
	if !c.ECDSAVerify(Q, digest, sig.R, sig.S) {
		return fmt.Errorf("released signature %v fails reference ECDSA verification", sig)
	}
	return nil
}
