package c04

import (
	"errors"
	"fmt"
	"strings"
	"sync"
	"testing"

	"pgregory.net/rapid"

	"github.com/bronlabs/bron-crypto/pkg/base"
	"verif/harness/vlib"
	"verif/harness/vlib/cbormut"
	"verif/harness/vlib/policy"
	"verif/harness/vlib/proto"
)

// Boldyreva threshold BLS is non-interactive: each cosigner sends one partial signature to the
// aggregator. The deviator's partial signature is altered on its way (every leaf class of its
// encoding x operators, or replaced by another signer's / another message's partial signature);
// the aggregator must reject and blame only the deviator, or release a signature that verifies.
// Non-ideal structures (a signer owning several MSP rows, hence several signature components)
// are part of the space.

type blsKey struct {
	p      *policy.Policy
	ids    []uint64
	shards map[proto.ID]any
}

var (
	blsKeyMu sync.Mutex
	blsKeys  = map[string]*blsKey{}
)

func blsPolicies() []struct {
	p   *policy.Policy
	ids []uint64
} {
	return []struct {
		p   *policy.Policy
		ids []uint64
	}{
		{&policy.Policy{Family: policy.Threshold, N: 3, T: 2}, []uint64{1, 2, 3}},
		{&policy.Policy{Family: policy.CNF, N: 3, MUS: []uint64{1, 2, 4}}, []uint64{5, 9, 2}}, // 2-of-3 as CNF: two rows per holder
		// AND(OR(0,1), OR(1,2), OR(0,2)) = 2-of-3 as a gate tree: two leaves (rows) per holder
		{&policy.Policy{Family: policy.Gate, N: 3, Root: &policy.Node{Leaf: -1, T: 3, Children: []*policy.Node{
			{Leaf: -1, T: 1, Children: []*policy.Node{{Leaf: 0}, {Leaf: 1}}}, {Leaf: -1, T: 1, Children: []*policy.Node{{Leaf: 1}, {Leaf: 2}}}, {Leaf: -1, T: 1, Children: []*policy.Node{{Leaf: 0}, {Leaf: 2}}}}}}, []uint64{3, 1, 2}},
		{&policy.Policy{Family: policy.Hier, N: 3, Levels: []policy.Level{{T: 1, Members: []int{0}}, {T: 2, Members: []int{1, 2}}}}, []uint64{1, 2, 3}},
	}
}

func TestBoldyrevaPartialFaults(t *testing.T) {
	const test = "BoldyrevaPartialFaults"
	signers := proto.BLSSigners()
	pols := blsPolicies()
	vlib.Check(t, 64, func(t *rapid.T) {
		sg := rapid.SampledFrom(signers).Draw(t, "signer")
		pi := rapid.IntRange(0, len(pols)-1).Draw(t, "policy")
		pc := pols[pi]
		g := proto.GroupByName(sg.GroupName())
		key := fmt.Sprintf("%s|%d", sg.GroupName(), pi)
		blsKeyMu.Lock()
		k, ok := blsKeys[key]
		blsKeyMu.Unlock()
		if !ok {
			ac, err := policy.Build(pc.p, pc.ids)
			if err != nil {
				t.Fatalf("build: %v", err)
			}
			shards, err := g.Deal(ac, vlib.NewPRNG(uint64(pi), "c04-bls-dealer"))
			if err != nil {
				t.Fatalf("dealer: %v", err)
			}
			k = &blsKey{p: pc.p, ids: pc.ids, shards: shards}
			blsKeyMu.Lock()
			blsKeys[key] = k
			blsKeyMu.Unlock()
		}
		// a qualified quorum
		perm := rapid.Permutation(policy.Members(k.p.Full())).Draw(t, "order")
		var mask uint64
		for _, i := range perm {
			mask |= 1 << uint(i)
			if k.p.Qualified(mask) {
				break
			}
		}
		if rapid.Bool().Draw(t, "all") {
			mask = k.p.Full()
		}
		quorum := policy.IDList(k.ids, mask)
		msg := []byte("c04 boldyreva message")
		ctxs, err := proto.Contexts(quorum, 11, "c04-bls")
		if err != nil {
			t.Fatalf("contexts: %v", err)
		}
		partials, err := sg.Partials(ctxs, k.shards, quorum, msg)
		if err != nil {
			t.Fatalf("%s %s quorum=%v: honest partial signatures failed: %v", sg.Name(), k.p, quorum, err)
		}
		if _, err := sg.Aggregate(k.shards[quorum[0]], msg, partials); err != nil {
			t.Fatalf("%s %s quorum=%v: honest aggregation failed: %v", sg.Name(), k.p, quorum, err)
		}
		// donors: partial signatures on another message, and the other signers' partials
		ctxs2, _ := proto.Contexts(quorum, 12, "c04-bls")
		otherMsg, err := sg.Partials(ctxs2, k.shards, quorum, []byte("another message"))
		if err != nil {
			t.Fatalf("donor partials: %v", err)
		}
		deviator := quorum[rapid.IntRange(0, len(quorum)-1).Draw(t, "deviator")]
		root, err := cbormut.Parse(partials[deviator])
		if err != nil {
			t.Fatalf("partial signature does not parse as CBOR: %v", err)
		}
		root.OpenNested()
		var donors []*cbormut.Node
		for id, b := range otherMsg {
			_ = id
			if n, err := cbormut.Parse(b); err == nil {
				n.OpenNested()
				donors = append(donors, n)
			}
		}
		for id, b := range partials {
			if id != deviator {
				if n, err := cbormut.Parse(b); err == nil {
					n.OpenNested()
					donors = append(donors, n)
				}
			}
		}
		var desc, opName, cls string
		switch rapid.IntRange(0, 7).Draw(t, "family") {
		case 0: // whole-message replacement
			if rapid.Bool().Draw(t, "otherMessage") {
				partials[deviator], desc = otherMsg[deviator], "own partial signature on another message"
			} else {
				for id, b := range partials {
					if id != deviator {
						partials[deviator], desc = b, fmt.Sprintf("partial signature of signer %d", id)
						break
					}
				}
			}
			opName, cls = "replace-whole", "<whole>"
		default:
			classes := append(cbormut.Classes(root), cbormut.ArrayClasses(root)...)
			cls = rapid.SampledFrom(classes).Draw(t, "class")
			ops := []string{cbormut.OpBitFlip, cbormut.OpReplace, cbormut.OpSwap, cbormut.OpZero}
			if strings.HasSuffix(cls, "[]") {
				ops = []string{cbormut.OpTruncate, cbormut.OpExtend}
			}
			m, ok := cbormut.Mutate(t, root, donors, ops, strings.TrimSuffix(cls, "[]"))
			if !ok {
				vlib.Case(test, "inapplicable|"+cls, false, "trivial=inapplicable")
				return
			}
			enc := root.Encode()
			if string(enc) == string(partials[deviator]) {
				vlib.Case(test, "noop|"+cls, false, "trivial=noop")
				return
			}
			partials[deviator], desc, opName = enc, m.String(), m.Op
		}
		what := fmt.Sprintf("%s %s ids=%v quorum=%v deviator=%d fault=%s", sg.Name(), k.p, k.ids, quorum, deviator, desc)
		var sigErr error
		vlib.NoPanic(t, what, func() { _, sigErr = sg.Aggregate(k.shards[quorum[0]], msg, partials) })
		verdict := "released-valid"
		switch {
		case sigErr == nil:
			// the aggregator released a signature and it verified (checked inside Aggregate): the
			// alteration was not semantic for the result (e.g. an ignored surplus element)
		case errors.Is(sigErr, proto.ErrReleasedInvalid):
			t.Fatalf("%s: the aggregator released a signature that fails public verification: %v", what, sigErr)
		default:
			verdict = "rejected"
			for _, culprit := range base.GetMaliciousIdentities[proto.ID](sigErr) {
				if culprit != deviator {
					t.Fatalf("%s: the aggregator blames signer %d, the deviator is %d: %v", what, culprit, deviator, sigErr)
				}
			}
		}
		vlib.Case(test, vlib.Desc(sg.Name(), k.p.Family, cls, opName, k.p.Rows(indexOf(k.ids, uint64(deviator))) > 1), true,
			"signer="+sg.Name(), "family="+k.p.Family, "op="+opName, "verdict="+verdict, fmt.Sprintf("deviatorRows=%d", k.p.Rows(indexOf(k.ids, uint64(deviator)))))
		vlib.Sample("boldyreva-fault", map[string]any{"signer": sg.Name(), "policy": k.p.String(), "fault": desc, "verdict": verdict})
	})
}

func indexOf(ids []uint64, v uint64) int {
	for i, x := range ids {
		if x == v {
			return i
		}
	}
	return -1
}
