package c04

import (
	"fmt"
	"os"
	"sort"
	"strings"
	"sync"
	"testing"
	"time"

	"pgregory.net/rapid"

	"github.com/bronlabs/bron-crypto/pkg/base"
	"verif/harness/vlib"
	"verif/harness/vlib/cbormut"
	"verif/harness/vlib/netsim"
	"verif/harness/vlib/proto"
)

// slot identifies one outgoing message of the protocol: sender, protocol round, unicast to one
// recipient or broadcast to all.
type slot struct {
	from      proto.ID
	round     string
	broadcast bool
	to        proto.ID // unicast only
}

func (s slot) String() string {
	if s.broadcast {
		return fmt.Sprintf("%s:bcast:from=%d", s.round, s.from)
	}
	return fmt.Sprintf("%s:ucast:from=%d:to=%d", s.round, s.from, s.to)
}

type baseline struct {
	slots   []slot
	classes map[string][]string            // slot kind key (round|b/u) -> leaf and array path classes
	bodies  map[string][]*cbormut.Node     // slot kind key -> parsed honest bodies (this session)
	para    map[string][]*cbormut.Node     // slot kind key -> parsed bodies of the parallel session
	raw     map[string]map[proto.ID][]byte // slot kind key -> sender -> one honest body (for whole-message replay)
	rawPara map[string]map[proto.ID][]byte
	wall    time.Duration
}

func kindKey(round string, broadcast bool) string {
	if broadcast {
		return round + "|b"
	}
	return round + "|u"
}

var (
	scOnce sync.Once
	scList []*scenario
	blMu   sync.Mutex
	blMap  = map[string]*baseline{}
)

func allScenarios() []*scenario {
	scOnce.Do(func() {
		scList = scenarios()
		// C04_SCENARIOS (development aid for surveys): comma-separated scenario names to keep
		if only := os.Getenv("C04_SCENARIOS"); only != "" {
			var keep []*scenario
			for _, sc := range scList {
				for _, n := range strings.Split(only, ",") {
					if sc.name == n {
						keep = append(keep, sc)
					}
				}
			}
			scList = keep
		}
	})
	return scList
}

func fixedSeeds(sc *scenario, salt uint64) map[proto.ID]uint64 {
	m := map[proto.ID]uint64{}
	for _, id := range sc.parties {
		m[id] = salt*1000003 + uint64(id)
	}
	return m
}

// honestRun runs the scenario without interference and returns the log.
func honestRun(sc *scenario, salt uint64) ([]*netsim.Msg, map[proto.ID]any, time.Duration, error) {
	rs, err := sc.runners(salt, fixedSeeds(sc, salt))
	if err != nil {
		return nil, nil, 0, fmt.Errorf("building runners: %w", err)
	}
	net := netsim.New(sc.parties)
	res, oc := netsim.RunAll(net, rs, netsim.Options{Idle: 120 * time.Second, Hard: 20 * time.Minute})
	outs := map[proto.ID]any{}
	for id, r := range res {
		if r.Panic != nil || r.Err != nil {
			return nil, nil, 0, fmt.Errorf("honest run failed at party %d: err=%v panic=%v", id, r.Err, r.Panic)
		}
		outs[id] = r.Out
	}
	if err := sc.check(outs); err != nil {
		return nil, nil, 0, fmt.Errorf("honest outputs fail the output oracle: %w", err)
	}
	return net.Log(), outs, oc.Wall, nil
}

func getBaseline(t fataler, sc *scenario) *baseline {
	blMu.Lock()
	defer blMu.Unlock()
	if b, ok := blMap[sc.name]; ok {
		return b
	}
	log, _, wall, err := honestRun(sc, 1)
	if err != nil {
		t.Fatalf("scenario %s: %v", sc.name, err)
	}
	logP, _, _, err := honestRun(sc, 2)
	if err != nil {
		t.Fatalf("scenario %s (parallel session): %v", sc.name, err)
	}
	b := &baseline{classes: map[string][]string{}, bodies: map[string][]*cbormut.Node{}, para: map[string][]*cbormut.Node{},
		raw: map[string]map[proto.ID][]byte{}, rawPara: map[string]map[proto.ID][]byte{}, wall: wall}
	seenSlot := map[string]bool{}
	add := func(m *netsim.Msg, bodies map[string][]*cbormut.Node, raw map[string]map[proto.ID][]byte, primary bool) {
		if m.Kind == netsim.Echo2 || m.Kind == netsim.Other {
			return
		}
		bc := m.IsBroadcast()
		key := kindKey(m.Round(), bc)
		n, err := cbormut.Parse(m.Body)
		if err != nil {
			return
		}
		n.OpenNested()
		bodies[key] = append(bodies[key], n)
		if raw[key] == nil {
			raw[key] = map[proto.ID][]byte{}
		}
		raw[key][m.From] = m.Body
		if !primary {
			return
		}
		s := slot{from: m.From, round: m.Round(), broadcast: bc}
		if !bc {
			s.to = m.To
		}
		if !seenSlot[s.String()] {
			seenSlot[s.String()] = true
			b.slots = append(b.slots, s)
		}
		set := map[string]bool{}
		for _, c := range b.classes[key] {
			set[c] = true
		}
		for _, c := range append(cbormut.Classes(n), cbormut.ArrayClasses(n)...) {
			if !set[c] {
				set[c] = true
				b.classes[key] = append(b.classes[key], c)
			}
		}
	}
	for _, m := range log {
		add(m, b.bodies, b.raw, true)
	}
	for _, m := range logP {
		add(m, b.para, b.rawPara, false)
	}
	sort.Slice(b.slots, func(i, j int) bool { return b.slots[i].String() < b.slots[j].String() })
	for k := range b.classes {
		sort.Strings(b.classes[k])
	}
	blMap[sc.name] = b
	return b
}

const (
	opDrop          = "drop"
	opReplayOther   = "replay-other-sender"
	opReplayPara    = "replay-parallel-session"
	opSwapRecipient = "swap-recipient" // unicast: deliver what was meant for another recipient
)

var leafOps = []string{cbormut.OpBitFlip, cbormut.OpBitFlip, cbormut.OpReplace, cbormut.OpReplace, cbormut.OpSwap, cbormut.OpZero, cbormut.OpIntStep}
var arrayOps = []string{cbormut.OpTruncate, cbormut.OpExtend}
var wholeOps = []string{opDrop, opReplayOther, opReplayPara, opSwapRecipient}

func survey() bool { return os.Getenv("C04_SURVEY") != "" }

// faultSpec is one point of the fault space.
type faultSpec struct {
	sc    *scenario
	sl    slot
	plan  cbormut.Plan // leaf / array operators
	whole string       // whole-message operators (plan unused)
}

func (f faultSpec) opName() string {
	if f.whole != "" {
		return f.whole
	}
	return f.plan.Op
}

func (f faultSpec) class() string {
	if f.whole != "" {
		return "<whole>"
	}
	return f.plan.Class
}

type fataler interface {
	Fatalf(format string, args ...any)
}

// runFault executes one faulty run and applies the oracles; it returns the verdict class and
// whether the case was non-trivial (the operator applied and changed the encoding).
func runFault(t fataler, test string, f faultSpec) (verdict string, nontrivial bool) {
	sc, sl, plan, whole := f.sc, f.sl, f.plan, f.whole
	bl := getBaseline(t, sc)
	key := kindKey(sl.round, sl.broadcast)
	deviator := sl.from
	what := fmt.Sprintf("scenario=%s slot=%s", sc.name, sl)

	rs, err := sc.runners(1, fixedSeeds(sc, 1))
	if err != nil {
		t.Fatalf("%s: %v", what, err)
	}
	net := netsim.New(sc.parties)
	var (
		imu      sync.Mutex
		applied  bool
		dropped  bool
		mutDesc  string
		mutBody  []byte // the mutated body (broadcast: reused for every copy)
		noop     bool
		inapplic bool
	)
	donors := append(append([]*cbormut.Node{}, bl.para[key]...), bl.bodies[key]...)
	net.SetInterceptor(func(m *netsim.Msg) []*netsim.Msg {
		if m.From != deviator || m.Round() != sl.round || m.Kind == netsim.Echo2 || m.Kind == netsim.Other || m.IsBroadcast() != sl.broadcast {
			return []*netsim.Msg{m}
		}
		if !sl.broadcast && m.To != sl.to {
			return []*netsim.Msg{m}
		}
		imu.Lock()
		defer imu.Unlock()
		if mutBody == nil && !dropped && !inapplic {
			switch whole {
			case opDrop:
				dropped, applied, mutDesc = true, true, "drop"
			case opReplayOther, opReplayPara, opSwapRecipient:
				var src []byte
				if whole == opReplayPara {
					src = bl.rawPara[key][deviator]
				} else if whole == opReplayOther {
					for _, id := range sc.parties {
						if id != deviator && bl.raw[key][id] != nil {
							src = bl.raw[key][id]
							break
						}
					}
				} else if !sl.broadcast {
					// what was sent to somebody else in the honest run
					for _, mm := range bl.bodies[key] {
						enc := mm.Encode()
						if string(enc) != string(m.Body) {
							src = enc
							break
						}
					}
				}
				if src == nil || string(src) == string(m.Body) {
					inapplic = true
				} else {
					mutBody, applied, mutDesc = src, true, whole
				}
			default:
				root, err := cbormut.Parse(m.Body)
				if err != nil {
					inapplic = true
					break
				}
				root.OpenNested()
				mu, ok := cbormut.Apply(root, donors, plan)
				if !ok {
					inapplic = true
					break
				}
				enc := root.Encode()
				if string(enc) == string(m.Body) || sameValues(m.Body, enc) {
					noop = true
					inapplic = true
					break
				}
				mutBody, applied, mutDesc = enc, true, mu.String()
			}
		}
		if dropped {
			return nil
		}
		if mutBody == nil {
			return []*netsim.Msg{m}
		}
		c := m.Clone()
		c.Body = mutBody
		return []*netsim.Msg{c}
	})
	idle := sc.idle
	if w := 8 * bl.wall; w > idle {
		idle = w
	}
	res, oc := netsim.RunAll(net, rs, netsim.Options{Idle: idle, Hard: 20 * time.Minute, StallOK: func() bool {
		imu.Lock()
		defer imu.Unlock()
		return applied
	}})
	imu.Lock()
	wasApplied, desc := applied, mutDesc
	imu.Unlock()
	opName := f.opName()
	if !wasApplied {
		cl := "inapplicable"
		if noop {
			cl = "noop"
		}
		return cl, false
	}
	what = fmt.Sprintf("%s fault=%s", what, desc)

	// ---- S1: no panic, no hang
	if oc.HardStop {
		t.Fatalf("%s: the run did not end within the hard bound", what)
	}
	honestErr, honestCancelled := 0, 0
	outs := map[proto.ID]any{}
	for id, r := range res {
		if r.Panic != nil {
			t.Fatalf("%s: party %d panicked: %v\n%s", what, id, r.Panic, r.Stack)
		}
		if r.Cancelled {
			if id != deviator {
				honestCancelled++
			}
			continue
		}
		if r.Err != nil {
			if id == deviator {
				continue // the deviator's own verdict is not read
			}
			honestErr++
			// ---- S2: every blamed party is the deviator
			for _, culprit := range base.GetMaliciousIdentities[proto.ID](r.Err) {
				if culprit != deviator {
					t.Fatalf("%s: honest party %d blames party %d, the deviator is %d: %v", what, id, culprit, deviator, r.Err)
				}
			}
			continue
		}
		outs[id] = r.Out
	}
	// ---- S3: whatever was returned is consistent and valid
	aggregatorRejected := false
	if len(outs) > 0 {
		if err := sc.check(outs); err == errAggregatorRejected {
			aggregatorRejected = true
		} else if err != nil {
			t.Fatalf("%s: %v", what, err)
		}
	}
	// ---- D: a bound alteration is rejected before a result is accepted
	detected := honestErr > 0 || aggregatorRejected
	verdict = "detected"
	if whole == opDrop {
		verdict = "dropped"
	} else if !sl.broadcast {
		r := res[sl.to]
		switch {
		case r.Cancelled:
			verdict = "inconclusive"
		case r.Err != nil:
			verdict = "detected-by-recipient"
		case aggregatorRejected:
			verdict = "detected-by-aggregator"
		case detected:
			verdict = "detected-by-other"
		default:
			verdict = "undetected"
		}
	} else {
		switch {
		case detected:
		case honestCancelled > 0:
			verdict = "inconclusive"
		default:
			verdict = "undetected"
		}
	}
	cls := f.class()
	if verdict == "undetected" || verdict == "detected-by-other" || verdict == "detected-by-aggregator" {
		free, _ := isFree(sc, sl, cls, opName, desc)
		if free {
			verdict = "free"
		} else if survey() {
			fmt.Printf("SURVEY-%s %s %s class=%s op=%s :: %s\n", verdict, sc.name, sl, cls, opName, desc)
			verdict = "survey-" + verdict
		} else if verdict == "undetected" {
			t.Fatalf("%s: the alteration of a bound part of the message was accepted: every honest party completed without error (class %s)", what, cls)
		} else {
			t.Fatalf("%s: the message was addressed to party %d only, which accepted it; the alteration was rejected only by %s (class %s)", what, sl.to, strings.TrimPrefix(verdict, "detected-by-"), cls)
		}
	}
	vlib.Sample("fault:"+sc.name, map[string]any{"scenario": sc.name, "slot": sl.String(), "fault": desc, "verdict": verdict})
	return verdict, true
}

func eligibleSlots(sc *scenario, bl *baseline) []slot {
	var slots []slot
	for _, s := range bl.slots {
		if s.from != sc.anchor {
			slots = append(slots, s)
		}
	}
	return slots
}

// TestFaults draws points of the fault space at random.
func TestFaults(t *testing.T) {
	const test = "Faults"
	vlib.Check(t, 480, func(t *rapid.T) {
		scs := allScenarios()
		sc := scs[rapid.IntRange(0, len(scs)-1).Draw(t, "scenario")]
		bl := getBaseline(t, sc)
		slots := eligibleSlots(sc, bl)
		sl := slots[rapid.IntRange(0, len(slots)-1).Draw(t, "slot")]
		classes := bl.classes[kindKey(sl.round, sl.broadcast)]
		f := faultSpec{sc: sc, sl: sl}
		switch rapid.IntRange(0, 9).Draw(t, "opFamily") {
		case 0:
			f.whole = rapid.SampledFrom(wholeOps).Draw(t, "wholeOp")
		default:
			cls := rapid.SampledFrom(classes).Draw(t, "class")
			f.plan.Class = cls
			if strings.HasSuffix(cls, "[]") {
				f.plan.Op = rapid.SampledFrom(arrayOps).Draw(t, "op")
			} else {
				f.plan.Op = rapid.SampledFrom(leafOps).Draw(t, "op")
			}
			f.plan.Pick = rapid.Uint64().Draw(t, "pick")
			f.plan.Pos = rapid.Uint64().Draw(t, "pos")
			f.plan.Bit = uint8(rapid.IntRange(0, 255).Draw(t, "bit"))
			f.plan.Down = rapid.Bool().Draw(t, "down")
		}
		verdict, nt := runFault(t, test, f)
		vlib.Case(test, vlib.Desc(sc.name, sl.round, sl.broadcast, f.class(), f.opName(), deviatorPos(sc, sl.from)), nt,
			"scenario="+sc.name, "op="+f.opName(), "verdict="+verdict, fmt.Sprintf("broadcast=%v", sl.broadcast))
	})
}

// TestFaultsEnumerated walks the whole (scenario x slot x leaf class x operator) space once,
// sharded; concrete leaf / byte / bit choices inside a class derive from VERIF_SEED. It runs in
// the thorough tier and in survey mode (C04_SURVEY=1), where undetected cases are listed
// instead of failing - that listing is how the free-list is established on the unchanged tree.
func TestFaultsEnumerated(t *testing.T) {
	const test = "FaultsEnumerated"
	if !vlib.Thorough() && !survey() {
		t.Skip("thorough tier / survey only")
	}
	scs := allScenarios()
	i := 0
	for _, sc := range scs {
		var bl *baseline
		for _, dummy := range []int{0} {
			_ = dummy
		}
		mine := func() bool { i++; return vlib.Mine(i - 1) }
		get := func() *baseline {
			if bl == nil {
				bl = getBaseline(t, sc)
			}
			return bl
		}
		// slots are only known after the baseline; compute it lazily per scenario but deterministically
		b := get()
		for _, sl := range eligibleSlots(sc, b) {
			classes := b.classes[kindKey(sl.round, sl.broadcast)]
			var specs []faultSpec
			for _, w := range wholeOps {
				specs = append(specs, faultSpec{sc: sc, sl: sl, whole: w})
			}
			for _, cls := range classes {
				ops := []string{cbormut.OpBitFlip, cbormut.OpReplace, cbormut.OpSwap, cbormut.OpZero, cbormut.OpIntStep}
				if strings.HasSuffix(cls, "[]") {
					ops = arrayOps
				}
				for _, op := range ops {
					specs = append(specs, faultSpec{sc: sc, sl: sl, plan: cbormut.Plan{Op: op, Class: cls}})
				}
			}
			for _, f := range specs {
				if !mine() {
					continue
				}
				h := hash64(fmt.Sprintf("%d|%s|%s|%s|%s", vlib.Seed(), sc.name, sl, f.class(), f.opName()))
				f.plan.Pick, f.plan.Pos, f.plan.Bit, f.plan.Down = h, h>>17, uint8(h>>40), h&1 == 1
				verdict, nt := runFault(t, test, f)
				vlib.Case(test, vlib.Desc(sc.name, sl.round, sl.broadcast, f.class(), f.opName(), deviatorPos(sc, sl.from)), nt,
					"scenario="+sc.name, "op="+f.opName(), "verdict="+verdict, fmt.Sprintf("broadcast=%v", sl.broadcast))
			}
		}
	}
	vlib.Exhaustive("every (scenario, slot, leaf path class, operator) combination of the C04 fault space once (concrete leaf/bit choices inside a class are sampled)")
}

func hash64(s string) uint64 {
	var h uint64 = 1469598103934665603
	for i := 0; i < len(s); i++ {
		h ^= uint64(s[i])
		h *= 1099511628211
	}
	return h
}

func deviatorPos(sc *scenario, d proto.ID) int {
	for i, id := range sc.parties {
		if id == d {
			return i
		}
	}
	return -1
}

// sameValues reports whether a mutated message differs from the original only in leaves that
// decode to the very same value (a re-encoding, which the property does not count as an
// alteration). The one such alias the operators can produce: the SEC1-compressed identity of
// k256 / P-256 is written 02||0..0 and k256 also reads 03||0..0 as the identity, so flipping
// the sign bit of an identity (e.g. the constant term of a zero-sharing's verification vector)
// changes no value.
func sameValues(orig, mutated []byte) bool {
	a, err := cbormut.Parse(orig)
	if err != nil {
		return false
	}
	b, err := cbormut.Parse(mutated)
	if err != nil {
		return false
	}
	a.OpenNested()
	b.OpenNested()
	la, _ := cbormut.Walk(a)
	lb, _ := cbormut.Walk(b)
	if len(la) != len(lb) {
		return false
	}
	differs := false
	for i := range la {
		x, y := la[i], lb[i]
		if x.Path != y.Path || x.Node.Major != y.Node.Major {
			return false
		}
		if x.Node.Val == y.Node.Val && string(x.Node.Bytes) == string(y.Node.Bytes) {
			continue
		}
		differs = true
		if !strings.HasSuffix(x.Path, "/compressedBytes") || !sec1Identity(x.Node.Bytes) || !sec1Identity(y.Node.Bytes) {
			return false
		}
	}
	return differs
}

func sec1Identity(b []byte) bool {
	if len(b) != 33 || (b[0] != 2 && b[0] != 3) {
		return false
	}
	for _, c := range b[1:] {
		if c != 0 {
			return false
		}
	}
	return true
}
