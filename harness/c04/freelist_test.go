package c04

import "verif/harness/vlib/proto"

// isFree reports whether an alteration of the given leaf class is one the protocol cannot and
// need not detect (a value the sender may legitimately choose afresh at that point, or one whose
// alteration leaves the run consistent). Everything not listed is bound.
func isFree(sc *scenario, sl slot, class, op string) (bool, string) {
	for _, e := range freeList {
		if e.match(sc.name, sl.round, sl.broadcast, class, op) && (e.from == 0 || e.from == sl.from) {
			return true, e.why
		}
	}
	return false, ""
}

type freeEntry struct {
	scenarioPrefix string
	round          string   // "" = any
	class          string   // "" = any; exact class otherwise
	op             string   // "" = any
	from           proto.ID // 0 = any sender
	why            string
}

func (e freeEntry) match(scenario, round string, broadcast bool, class, op string) bool {
	if len(scenario) < len(e.scenarioPrefix) || scenario[:len(e.scenarioPrefix)] != e.scenarioPrefix {
		return false
	}
	if e.round != "" && e.round != round {
		return false
	}
	if e.class != "" && e.class != class {
		return false
	}
	if e.op != "" && e.op != op {
		return false
	}
	return true
}

var freeList = []freeEntry{}
