package c04

import (
	"strings"

	"verif/harness/vlib/proto"
)

// isFree reports whether an alteration of the given leaf class is one the protocol cannot and
// need not detect (a value the sender may legitimately choose afresh at that point, or one whose
// alteration leaves the run consistent). Everything not listed is bound.
func isFree(sc *scenario, sl slot, class, op, desc string) (bool, string) {
	for _, e := range freeList {
		if e.notPath != "" && strings.Contains(desc, e.notPath) {
			continue
		}
		if e.match(sc.name, sl.round, sl.broadcast, class, op) && (e.from == 0 || e.from == sl.from) {
			return true, e.why
		}
	}
	return false, ""
}

type freeEntry struct {
	scenarioPrefix string
	round          string   // "" = any
	class          string   // "" = any; exact class otherwise
	op             string   // "" = any
	from           proto.ID // 0 = any sender
	notPath        string   // the entry does not apply when the concrete mutation touches a path containing this
	why            string
}

func (e freeEntry) match(scenario, round string, broadcast bool, class, op string) bool {
	if len(scenario) < len(e.scenarioPrefix) || scenario[:len(e.scenarioPrefix)] != e.scenarioPrefix {
		return false
	}
	if e.round != "" && e.round != round {
		return false
	}
	if e.class != "" && e.class != class {
		// a trailing * makes the entry a prefix
		if !(len(e.class) > 0 && e.class[len(e.class)-1] == '*' && len(class) >= len(e.class)-1 && class[:len(e.class)-1] == e.class[:len(e.class)-1]) {
			return false
		}
	}
	if e.op != "" && e.op != op {
		return false
	}
	return true
}

// The free-list. Established on the unchanged tree with the enumerated survey
// (C04_SURVEY=1, TestFaultsEnumerated) and by reading each protocol; every entry says why the
// leaf is not bound. Entries are as narrow as the reason allows.
var freeList = []freeEntry{
	{scenarioPrefix: "session", round: "SessionSetupR1", class: "/Ck",
		why: "Round1Broadcast.Ck is a fresh commitment key chosen by its sender; nothing earlier binds it. Peers commit to the sender under the key they received; if it was altered, only the sender's own round 4 fails (the deviator's verdict is not read) and the honest parties still end with one consistent context (checked by S3)."},
	{scenarioPrefix: "lindell17", round: "Lindell17SignRound4", class: "/c3/c@5017/arithmetic*",
		why: "the ciphertext c3 carries a self-description of its group (modulus N^2); the primary decrypts with its own key and checks membership of the VALUE in its own group, so the declared modulus is redundant metadata; the released signature is still verified (S3)."},
	{scenarioPrefix: "lindell17", round: "Lindell17SignRound4", class: "/c3/c@5017/n*",
		why: "same as above: redundant description of the ciphertext's group"},
	{scenarioPrefix: "dkls23", round: "DKLS23SignRound2", class: "/otR2/phi/*[]", op: "extend",
		why: "a surplus trailing element of a per-instance array is ignored by the receiver; no bound value changes and the released signature verifies (S3)"},
	{scenarioPrefix: "dkls23", round: "DKLS23SignRound3", class: "/mulR1/OtR1/challengeResponse/t[]", op: "extend",
		why: "surplus trailing row of the extension's challenge response is ignored (the first kappa rows are checked)"},
	{scenarioPrefix: "dkls23", round: "DKLS23SignRound3", class: "/mulR1/OtR1/u[]", op: "extend",
		why: "surplus trailing row of the extension's correlation message is ignored"},
	// DKLs23 with the batched base OT (thorough tier): round 2 is nothing but the OT RECEIVER's
	// message phi of the endemic OT (ecbbot): every pair of group elements is a valid receiver message -
	// a receiver that sends other points than it programmed merely loses its own OT outputs, its own
	// multiplication check then fails and it releases nothing (the deviator's verdict is not read; the
	// honest sender cannot and need not notice; no signature is assembled without the deviator's
	// partial signature, S3 still applies to whatever is released).
	{scenarioPrefix: "dkls23-bbot", round: "DKLS23SignBBOTRound2", class: "/mulR2/OtR2/phi/*",
		why: "receiver message of an endemic (random) OT: any group element is a legitimate choice of the sender of this message"},
	{scenarioPrefix: "dkls23-bbot", round: "DKLS23SignBBOTRound2", class: "<whole>",
		why: "the whole round-2 message is the OT receiver's phi (see above): another party's / session's phi is as legitimate as its own"},
	{scenarioPrefix: "dkls23-bbot", round: "DKLS23SignBBOTRound3", class: "/psi*",
		why: "as DKLS23SignRound4 /psi of the SoftSpoken variant: bound only through the aggregator's final verification"},
	{scenarioPrefix: "dkls23", round: "DKLS23SignRound4", class: "/psi*",
		why: "psi is bound only through the aggregator's final verification (DKLs23 design: the recipient cannot check it locally); the verdict 'detected by the aggregator' is the designed detection point"},
	// Hand-over to a disjoint holder set without trusted anchors (README "Identifiable Abort"): a
	// next-only recipient without an anchor has no reference for the OLD metadata; it checks every
	// sender's share against that sender's next verification-vector contribution, the aggregate, and
	// that every sender's CLAIMED previous public key (PrevVerificationVector[0]) equals the new one.
	// The previous MSP, the zero-sharing vector and the higher coefficients of the previous
	// verification vector are consumed only by the per-sender identifiable checks, which such a
	// recipient does not run ("some metadata failures degrade"): not bound for it. The claimed
	// previous public key IS bound (entry excluded by notPath) and the output oracle S3 applies.
	{scenarioPrefix: "redistribute-handover", round: "RedistributeRound2", class: "/PrevMSP/*",
		why: "old-structure metadata, only used by recipients that hold a reference (previous holders, anchored parties)"},
	{scenarioPrefix: "redistribute-handover", round: "RedistributeRound2", class: "/ZeroVerificationVector/*",
		why: "zero-sharing commitments, only checked per sender against a reference the anchorless next-only recipients do not have"},
	{scenarioPrefix: "redistribute-handover", round: "RedistributeRound2", class: "/PrevVerificationVector/*",
		notPath: "/PrevVerificationVector/verification_vector/data/0/",
		why:     "higher coefficients of the previous verification vector: only the constant term (the claimed previous public key) is compared by anchorless next-only recipients"},
	{scenarioPrefix: "redistribute-handover", from: 4, why: "next-only holder: its round-1/2 broadcasts carry no protocol content"},
	{scenarioPrefix: "redistribute-handover", from: 5, why: "next-only holder: its round-1/2 broadcasts carry no protocol content"},
	{scenarioPrefix: "redistribute-handover", from: 6, why: "next-only holder: its round-1/2 broadcasts carry no protocol content"},
	{scenarioPrefix: "redistribute-to-unanimity", from: 3,
		why: "party 3 is a next-only holder in this scenario: its round-1/2 messages carry no protocol content (Validate ignores non-previous shareholders), so altering them changes nothing"},
}
