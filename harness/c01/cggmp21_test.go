package c01

import (
	"fmt"
	"strings"
	"testing"

	"pgregory.net/rapid"

	"github.com/bronlabs/bron-crypto/pkg/network"
	"verif/harness/vlib"
	"verif/harness/vlib/policy"
	"verif/harness/vlib/proto"
)

// CGGMP21 threshold ECDSA on shards whose auxiliary information (2048-bit Paillier-Blum and
// ring-Pedersen keys) is built from prime fixtures through the library's constructors.
func TestCGGMP21(t *testing.T) {
	const test = "CGGMP21"
	signers := proto.ECDSASigners()
	vlib.Check(t, 10, func(t *rapid.T) {
		sg := rapid.SampledFrom(signers).Draw(t, "suite")
		g := proto.GroupByName(sg.Curve())
		maxN := 3
		if vlib.Thorough() {
			maxN = 4
		}
		p, ids, regime := drawPolicyAndIDs(t, g, maxN)
		method := rapid.SampledFrom([]string{"dealer", "gennaro"}).Draw(t, "keygen")
		keySeed := rapid.Uint64Range(0, 1).Draw(t, "keySeed")
		km := keygen(t, g, method, p, ids, keySeed)
		ckey := fmt.Sprintf("cggmp21|%s|%s|%s|%v|%d", sg.Curve(), method, p, ids, keySeed)
		keyMu.Lock()
		ck, ok := keyCache[ckey]
		keyMu.Unlock()
		if !ok {
			shards, err := sg.CGGMP21Shards(km.shards)
			if err != nil {
				t.Fatalf("building cggmp21 shards for %s ids=%v: %v", p, ids, err)
			}
			ck = &keyMaterial{shards: shards, p: p, ids: ids}
			keyMu.Lock()
			keyCache[ckey] = ck
			keyMu.Unlock()
		}
		qmask, minimal := drawQuorum(t, p)
		quorum := policy.IDList(ids, qmask)
		msg, mcls := drawMessage(t, true)
		seed := rapid.Uint64().Draw(t, "seed")
		what := fmt.Sprintf("cggmp21 %s %s/%s ids=%v quorum=%v msg=%s(%d)", sg.Name(), method, p, ids, quorum, mcls, len(msg))
		ctxs, err := proto.Contexts(quorum, seed, "cggmp21")
		if err != nil {
			t.Fatalf("%s: contexts: %v", what, err)
		}
		runners := map[proto.ID]network.Runner[any]{}
		for _, id := range quorum {
			r, err := sg.CGGMP21Runner(ctxs[id], ck.shards[id], msg, proto.PartyPRNG(seed, "cggmp21", id))
			if err != nil {
				t.Fatalf("%s: qualified quorum refused at party %d: %v", what, id, err)
			}
			runners[id] = r
		}
		outs := runSigning(t, what, quorum, runners)
		sig, err := sg.CGGMP21Finish(outs)
		if err != nil {
			if strings.Contains(err.Error(), "AGGREGATORS-DISAGREE") {
				t.Fatalf("%s: aggregators obtain different signatures: %v", what, err)
			}
			t.Fatalf("%s: aggregation of honest partial signatures failed: %v", what, err)
		}
		checkECDSA(t, what, sg, ck.shards[quorum[0]], msg, sig)
		nt := !isFixture(p, regime) || !minimal
		vlib.Case(test, vlib.Desc(sg.Name(), p.Family, p.String(), regime, method, !minimal, mcls), nt,
			"suite="+sg.Name(), "family="+p.Family, "ids="+regime, "keygen="+method, fmt.Sprintf("minimal=%v", minimal), "msg="+mcls, fmt.Sprintf("quorum=%d", len(quorum)))
		vlib.Sample("cggmp21", map[string]any{"suite": sg.Name(), "policy": p.String(), "ids": ids, "quorum": quorum, "keygen": method})
	})
}
