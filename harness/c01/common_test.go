package c01

import (
	"fmt"
	"math/big"
	"sync"
	"time"

	"pgregory.net/rapid"

	"github.com/bronlabs/bron-crypto/pkg/network"
	"github.com/bronlabs/bron-crypto/pkg/proofs/sigma/compiler/fiatshamir"
	"verif/harness/vlib"
	"verif/harness/vlib/netsim"
	"verif/harness/vlib/policy"
	"verif/harness/vlib/proto"
	"verif/harness/vlib/refcurve"
)

// ---- key material, cached per (group, policy, ids, keygen, seed) inside a process ----------

type keyMaterial struct {
	shards map[proto.ID]any
	p      *policy.Policy
	ids    []uint64
}

var (
	keyMu    sync.Mutex
	keyCache = map[string]*keyMaterial{}
)

// keygen returns base shards from one of {trusted dealer, Gennaro, Canetti}.
func keygen(t *rapid.T, g proto.Group, method string, p *policy.Policy, ids []uint64, seed uint64) *keyMaterial {
	key := fmt.Sprintf("%s|%s|%s|%v|%d", g.Name(), method, p, ids, seed)
	keyMu.Lock()
	km, ok := keyCache[key]
	keyMu.Unlock()
	if ok {
		return km
	}
	ac, err := policy.Build(p, ids)
	if err != nil {
		t.Fatalf("building %s ids=%v: %v", p, ids, err)
	}
	holders := proto.ToIDs(ids)
	var shards map[proto.ID]any
	if method == "dealer" {
		shards, err = g.Deal(ac, vlib.NewPRNG(seed, "dealer"))
		if err != nil {
			t.Fatalf("trusted dealer failed (%s ids=%v %s): %v", p, ids, g.Name(), err)
		}
	} else {
		ctxs, err := proto.Contexts(holders, seed, "keygen")
		if err != nil {
			t.Fatalf("contexts: %v", err)
		}
		runners := map[proto.ID]network.Runner[any]{}
		for _, id := range holders {
			prng := proto.PartyPRNG(seed, method, id)
			var r network.Runner[any]
			if method == "canetti" {
				r, err = g.CanettiRunner(ctxs[id], ac, prng)
			} else {
				r, err = g.GennaroRunner(ctxs[id], ac, fiatshamir.Name, prng)
			}
			if err != nil {
				t.Fatalf("%s runner: %v", method, err)
			}
			runners[id] = r
		}
		res, _ := netsim.RunAll(netsim.New(holders), runners, netsim.Options{Idle: 60 * time.Second, Hard: 15 * time.Minute})
		shards = map[proto.ID]any{}
		for id, r := range res {
			if r.Panic != nil || r.Err != nil {
				t.Fatalf("honest %s key generation failed at party %d (%s ids=%v %s): err=%v panic=%v", method, id, p, ids, g.Name(), r.Err, r.Panic)
			}
			shards[id] = r.Out
		}
	}
	km = &keyMaterial{shards: shards, p: p, ids: ids}
	keyMu.Lock()
	if len(keyCache) > 400 {
		keyCache = map[string]*keyMaterial{}
	}
	keyCache[key] = km
	keyMu.Unlock()
	return km
}

// drawQuorum draws a qualified set of holders: minimal with probability 1/2, otherwise with extra members.
func drawQuorum(t *rapid.T, p *policy.Policy) (mask uint64, minimal bool) {
	perm := rapid.Permutation(policy.Members(p.Full())).Draw(t, "quorumOrder")
	for _, i := range perm {
		mask |= 1 << uint(i)
		if p.Qualified(mask) {
			break
		}
	}
	// shrink to a minimal qualified set
	for _, i := range perm {
		if mask&(1<<uint(i)) != 0 && p.Qualified(mask&^(1<<uint(i))) {
			mask &^= 1 << uint(i)
		}
	}
	minimal = true
	if rapid.Bool().Draw(t, "nonMinimal") {
		for _, i := range perm {
			if mask&(1<<uint(i)) == 0 && rapid.Bool().Draw(t, fmt.Sprintf("extra%d", i)) {
				mask |= 1 << uint(i)
				minimal = false
			}
		}
	}
	return mask, minimal
}

var msgClasses = []string{"empty", "1byte", "55", "56", "63", "64", "65", "111", "112", "128", "long", "zeros", "ones"}

func drawMessage(t *rapid.T, allowEmpty bool) ([]byte, string) {
	cls := rapid.SampledFrom(msgClasses).Draw(t, "msgClass")
	if cls == "empty" && !allowEmpty {
		cls = "1byte"
	}
	n := 0
	switch cls {
	case "empty":
		return []byte{}, cls
	case "1byte":
		n = 1
	case "long":
		n = rapid.IntRange(129, 4096).Draw(t, "msgLen")
	case "zeros":
		return make([]byte, 32), cls
	case "ones":
		b := make([]byte, 32)
		for i := range b {
			b[i] = 0xff
		}
		return b, cls
	default:
		fmt.Sscan(cls, &n)
	}
	return rapid.SliceOfN(rapid.Byte(), n, n).Draw(t, "msg"), cls
}

func drawPolicyAndIDs(t *rapid.T, g proto.Group, maxN int) (*policy.Policy, []uint64, string) {
	p := policy.Draw(t, policy.Opts{MaxN: maxN})
	regime := rapid.SampledFrom([]string{policy.Ordinal, policy.Sparse, policy.Large}).Draw(t, "regime")
	ids := policy.DrawIDs(t, p, regime)
	if p.Family == policy.Hier && policy.TassaVerdict(p, ids, g.Order()) != 1 {
		regime = policy.Ordinal
		ids = policy.DrawIDs(t, p, regime)
	}
	return p, ids, regime
}

// runSigning executes one runner per quorum member over the harness switch.
func runSigning(t *rapid.T, what string, quorum []proto.ID, runners map[proto.ID]network.Runner[any]) map[proto.ID]any {
	res, oc := netsim.RunAll(netsim.New(quorum), runners, netsim.Options{Idle: 60 * time.Second, Hard: 15 * time.Minute})
	if oc.HardStop {
		t.Fatalf("%s: signing did not terminate", what)
	}
	out := map[proto.ID]any{}
	for id, r := range res {
		if r.Panic != nil {
			t.Fatalf("%s: party %d panicked: %v\n%s", what, id, r.Panic, r.Stack)
		}
		if r.Err != nil {
			t.Fatalf("%s: honest signing failed at party %d: %v", what, id, r.Err)
		}
		out[id] = r.Out
	}
	return out
}

// refPoint decodes a library point encoding (Bytes()) into the reference model.
func refPoint(curve string, b []byte) (*refcurve.Curve, refcurve.Point, error) {
	switch curve {
	case "k256":
		c := refcurve.K256()
		p, _, err := c.DecodeSEC1(b)
		return c, p, err
	case "p256":
		c := refcurve.P256()
		p, _, err := c.DecodeSEC1(b)
		return c, p, err
	case "ed25519":
		c := refcurve.Ed25519()
		p, _, err := refcurve.DecodeEd25519(b)
		return c, p, err
	case "pallas":
		c := minaPallas()
		p, _, err := c.DecodePasta(b)
		return c, p, err
	}
	return nil, refcurve.Point{}, fmt.Errorf("no reference decoder for %s", curve)
}

func beInt(b []byte) *big.Int { return new(big.Int).SetBytes(b) }

func reverse(b []byte) []byte {
	o := make([]byte, len(b))
	for i := range b {
		o[i] = b[len(b)-1-i]
	}
	return o
}

// minaPallas is the Pallas curve of the reference model with the base point the library (and
// Mina) uses, (1, 0x1b74...2abb), instead of the pasta_curves generator (-1, 2). Same group,
// different conventional generator; the constant is typed in and checked in the model.
func minaPallas() *refcurve.Curve {
	c := *refcurve.Pallas()
	y, _ := new(big.Int).SetString("1b74b5a30a12937c53dfa9f06378ee548f655bd4333d477119cf7a23caed2abb", 16)
	g, err := c.FromAffine(big.NewInt(1), y)
	if err != nil || !c.IsInPrimeSubgroup(g) {
		panic("mina pallas generator is not a valid point of the model")
	}
	c.G = g
	return &c
}
