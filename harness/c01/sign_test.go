package c01

import (
	"bytes"
	"crypto/ecdsa"
	"crypto/elliptic"
	"fmt"
	"math/big"
	"testing"

	"pgregory.net/rapid"

	"github.com/bronlabs/bron-crypto/pkg/network"
	"github.com/bronlabs/bron-crypto/pkg/proofs/sigma/compiler"
	"github.com/bronlabs/bron-crypto/pkg/proofs/sigma/compiler/fiatshamir"
	"github.com/bronlabs/bron-crypto/pkg/proofs/sigma/compiler/fischlin"
	"github.com/bronlabs/bron-crypto/pkg/proofs/sigma/compiler/randfischlin"
	"verif/harness/vlib"
	"verif/harness/vlib/policy"
	"verif/harness/vlib/proto"
	"verif/harness/vlib/refcurve"
)

var keygenMethods = []string{"dealer", "dealer", "gennaro", "canetti"}

func isFixture(p *policy.Policy, regime string) bool {
	return p.Family == policy.Threshold && p.T == 2 && p.N == 3 && regime == policy.Ordinal
}

// ---------------------------------------------------------------------------------------------
// Lindell22 (threshold Schnorr): BIP-340, Mina, configurable Schnorr
// ---------------------------------------------------------------------------------------------

func TestLindell22(t *testing.T) {
	const test = "Lindell22"
	signers := proto.SchnorrSigners()
	vlib.Check(t, 220, func(t *rapid.T) {
		// BIP-340 and Mina get a fixed share of the cases, the configurable variants the rest
		var sg proto.SchnorrSigner
		switch rapid.IntRange(0, 3).Draw(t, "flavour") {
		case 0:
			sg = signers[0]
		case 1:
			sg = signers[1]
		default:
			sg = signers[rapid.IntRange(2, len(signers)-1).Draw(t, "variant")]
		}
		g := proto.GroupByName(sg.GroupName())
		maxN := 5
		if vlib.Thorough() {
			maxN = 7
		}
		p, ids, regime := drawPolicyAndIDs(t, g, maxN)
		method := rapid.SampledFrom(keygenMethods).Draw(t, "keygen")
		// a tail of large quorums (dealt keys): signing code that loops over co-signers, Lagrange /
		// span-programme coefficients and per-peer buffers is only stressed past a handful of parties
		if rapid.IntRange(0, 11).Draw(t, "bigQuorum") == 0 {
			n := rapid.SampledFrom([]int{8, 9, 10, 12, 16}).Draw(t, "bigN")
			p = &policy.Policy{Family: policy.Threshold, N: n, T: rapid.IntRange(2, n).Draw(t, "bigT")}
			regime = rapid.SampledFrom([]string{policy.Ordinal, policy.Sparse, policy.Large}).Draw(t, "bigRegime")
			ids = policy.DrawIDs(t, p, regime)
			method = "dealer"
		}
		km := keygen(t, g, method, p, ids, rapid.Uint64Range(0, 3).Draw(t, "keySeed"))
		qmask, minimal := drawQuorum(t, p)
		quorum := policy.IDList(ids, qmask)
		msg, mcls := drawMessage(t, true)
		comp := rapid.SampledFrom([]compiler.Name{fiatshamir.Name, fiatshamir.Name, fischlin.Name, randfischlin.Name}).Draw(t, "compiler")
		seed := rapid.Uint64().Draw(t, "seed")
		what := fmt.Sprintf("%s %s/%s ids=%v quorum=%v msg=%s(%d) comp=%s", sg.Name(), method, p, ids, quorum, mcls, len(msg), comp)

		ctxs, err := proto.Contexts(quorum, seed, "sign")
		if err != nil {
			t.Fatalf("%s: contexts: %v", what, err)
		}
		runners := map[proto.ID]network.Runner[any]{}
		for _, id := range quorum {
			r, err := sg.Runner(ctxs[id], km.shards[id], comp, msg, proto.PartyPRNG(seed, "l22", id))
			if err != nil {
				t.Fatalf("%s: qualified quorum refused at party %d: %v", what, id, err)
			}
			runners[id] = r
		}
		partials := runSigning(t, what, quorum, runners)
		anyShard := km.shards[quorum[0]]
		sig, err := sg.Aggregate(anyShard, msg, partials)
		if err != nil {
			t.Fatalf("%s: aggregation of honest partial signatures failed: %v", what, err)
		}
		// every aggregator obtains the same signature (aggregate again from another member's public material)
		sig2, err := sg.Aggregate(km.shards[quorum[len(quorum)-1]], msg, partials)
		if err != nil || sig2.String() != sig.String() {
			t.Fatalf("%s: two aggregators disagree: %v vs %v (err=%v)", what, sig, sig2, err)
		}
		if err := sg.VerifyLib(anyShard, msg, sig); err != nil {
			t.Fatalf("%s: the library's own verifier rejects the threshold signature: %v", what, err)
		}
		// independent verification
		pkb, err := sg.PKBytes(anyShard)
		if err != nil {
			t.Fatalf("%s: %v", what, err)
		}
		indep := independentSchnorr(t, what, sg, pkb, msg, sig)
		// ... and rejected for a different message
		other := append(append([]byte{}, msg...), 0x01)
		if err := sg.VerifyLib(anyShard, other, sig); err == nil {
			t.Fatalf("%s: signature also verifies for a different message", what)
		}
		nt := !isFixture(p, regime) || !minimal
		vlib.Case(test, vlib.Desc(sg.Name(), p.Family, p.String(), regime, method, !minimal, mcls), nt,
			"signer="+sg.Name(), "family="+p.Family, "ids="+regime, "keygen="+method, fmt.Sprintf("minimal=%v", minimal), "msg="+mcls, "compiler="+string(comp), "independent="+indep, fmt.Sprintf("ideal=%v", p.Ideal()))
		vlib.Sample("lindell22:"+sg.GroupName(), map[string]any{"signer": sg.Name(), "policy": p.String(), "ids": ids, "quorum": quorum, "keygen": method, "msgLen": len(msg)})
	})
}

// independentSchnorr checks the signature in the reference model and returns which level of
// independence was reached ("bip340-full", "equation+challenge", "equation", "library-only").
func independentSchnorr(t *rapid.T, what string, sg proto.SchnorrSigner, pkb, msg []byte, sig *proto.SchnorrSig) string {
	name := sg.Name()
	if name == "lindell22-bip340" {
		c, P, err := refPoint("k256", pkb)
		if err != nil {
			t.Fatalf("%s: public key does not decode in the reference model: %v", what, err)
		}
		_, R, err := refPoint("k256", sig.R)
		if err != nil {
			t.Fatalf("%s: R does not decode in the reference model: %v", what, err)
		}
		px, _ := c.AffineBytesBE(P)
		rx, _ := c.AffineBytesBE(R)
		s := make([]byte, 32)
		sig.S.FillBytes(s)
		if !refcurve.BIP340Verify(px, msg, append(append([]byte{}, rx...), s...)) {
			t.Fatalf("%s: BIP-340 reference verifier rejects the threshold signature (R=%x s=%x)", what, rx, s)
		}
		if refcurve.BIP340Verify(px, append(append([]byte{}, msg...), 1), append(append([]byte{}, rx...), s...)) {
			t.Fatalf("%s: BIP-340 reference verifier accepts the signature for another message", what)
		}
		return "bip340-full"
	}
	if name == "lindell22-mina" {
		return "library-only" // Poseidon challenge has no independent implementation offline
	}
	c, P, err := refPoint(sg.GroupName(), pkb)
	if err != nil {
		t.Fatalf("%s: public key does not decode in the reference model: %v", what, err)
	}
	_, R, err := refPoint(sg.GroupName(), sig.R)
	if err != nil {
		t.Fatalf("%s: R does not decode in the reference model: %v", what, err)
	}
	if sig.E == nil {
		return "library-only"
	}
	neg := bytes.Contains([]byte(name), []byte("neg=true"))
	e := new(big.Int).Set(sig.E)
	if neg {
		e.Neg(e) // s = k - e x  <=>  [s]G = R + [-e]P
	}
	if !c.SchnorrEquation(sig.S, R, e, P) {
		t.Fatalf("%s: group equation [s]G = R ± [e]P fails in the reference model", what)
	}
	return "equation"
}

// ---------------------------------------------------------------------------------------------
// DKLs23 (threshold ECDSA), both multipliers
// ---------------------------------------------------------------------------------------------

func TestDKLs23(t *testing.T) {
	const test = "DKLs23"
	signers := proto.ECDSASigners()
	vlib.Check(t, 48, func(t *rapid.T) {
		sg := rapid.SampledFrom(signers).Draw(t, "suite")
		variant := rapid.SampledFrom([]string{"softspoken", "softspoken", "softspoken", "bbot"}).Draw(t, "variant")
		g := proto.GroupByName(sg.Curve())
		maxN := 4
		if vlib.Thorough() {
			maxN = 6
		}
		p, ids, regime := drawPolicyAndIDs(t, g, maxN)
		method := rapid.SampledFrom(keygenMethods).Draw(t, "keygen")
		km := keygen(t, g, method, p, ids, rapid.Uint64Range(0, 3).Draw(t, "keySeed"))
		qmask, minimal := drawQuorum(t, p)
		if variant == "bbot" && policy.PopCount(qmask) > 3 {
			variant = "softspoken" // keep the expensive multiplier to small quorums
		}
		quorum := policy.IDList(ids, qmask)
		msg, mcls := drawMessage(t, true)
		seed := rapid.Uint64().Draw(t, "seed")
		what := fmt.Sprintf("dkls23-%s %s %s/%s ids=%v quorum=%v msg=%s(%d)", variant, sg.Name(), method, p, ids, quorum, mcls, len(msg))

		ctxs, err := proto.Contexts(quorum, seed, "sign")
		if err != nil {
			t.Fatalf("%s: contexts: %v", what, err)
		}
		runners := map[proto.ID]network.Runner[any]{}
		for _, id := range quorum {
			r, err := sg.DKLS23Runner(variant, ctxs[id], km.shards[id], msg, proto.PartyPRNG(seed, "dkls", id))
			if err != nil {
				t.Fatalf("%s: qualified quorum refused at party %d: %v", what, id, err)
			}
			runners[id] = r
		}
		partials := runSigning(t, what, quorum, runners)
		var order []any
		for _, id := range quorum {
			order = append(order, partials[id])
		}
		sig, err := sg.DKLS23Aggregate(km.shards[quorum[0]], msg, order)
		if err != nil {
			t.Fatalf("%s: aggregation failed: %v", what, err)
		}
		// any ordering of the partial signatures gives the same signature
		perm := rapid.Permutation(order).Draw(t, "aggOrder")
		sig2, err := sg.DKLS23Aggregate(km.shards[quorum[len(quorum)-1]], msg, perm)
		if err != nil || sig2.String() != sig.String() {
			t.Fatalf("%s: aggregation depends on order or aggregator: %v vs %v (err=%v)", what, sig, sig2, err)
		}
		checkECDSA(t, what, sg, km.shards[quorum[0]], msg, sig)
		nt := !isFixture(p, regime) || !minimal
		vlib.Case(test, vlib.Desc(variant, sg.Name(), p.Family, p.String(), regime, method, !minimal, mcls), nt,
			"variant="+variant, "suite="+sg.Name(), "family="+p.Family, "ids="+regime, "keygen="+method, fmt.Sprintf("minimal=%v", minimal), "msg="+mcls, fmt.Sprintf("quorum=%d", len(quorum)))
		vlib.Sample("dkls23:"+variant, map[string]any{"suite": sg.Name(), "policy": p.String(), "ids": ids, "quorum": quorum, "keygen": method, "msgLen": len(msg)})
	})
}

// checkECDSA: library default verifier accepts; the independent verifier accepts for exactly this
// message and key and rejects another message.
func checkECDSA(t *rapid.T, what string, sg proto.ECDSASigner, shard any, msg []byte, sig *proto.ECDSASig) {
	if err := sg.VerifyLib(shard, msg, sig); err != nil {
		t.Fatalf("%s: the library's own verifier rejects the threshold signature %v: %v", what, sig, err)
	}
	pku, err := sg.PKUncompressed(shard)
	if err != nil || len(pku) != 65 || pku[0] != 4 {
		t.Fatalf("%s: cannot read the public key: %v", what, err)
	}
	h := sg.HashFunc()()
	h.Write(msg)
	digest := h.Sum(nil)
	h2 := sg.HashFunc()()
	h2.Write(append(append([]byte{}, msg...), 0x01))
	digest2 := h2.Sum(nil)
	x, y := new(big.Int).SetBytes(pku[1:33]), new(big.Int).SetBytes(pku[33:])
	switch sg.Curve() {
	case "p256":
		pub := &ecdsa.PublicKey{Curve: elliptic.P256(), X: x, Y: y}
		if !ecdsa.Verify(pub, digest, sig.R, sig.S) {
			t.Fatalf("%s: crypto/ecdsa rejects the threshold signature %v", what, sig)
		}
		if ecdsa.Verify(pub, digest2, sig.R, sig.S) {
			t.Fatalf("%s: crypto/ecdsa accepts the signature for another message", what)
		}
	case "k256":
		c := refcurve.K256()
		Q, err := c.FromAffine(x, y)
		if err != nil {
			t.Fatalf("%s: public key is not on secp256k1 in the reference model: %v", what, err)
		}
		if !c.ECDSAVerify(Q, digest, sig.R, sig.S) {
			t.Fatalf("%s: reference ECDSA verifier rejects the threshold signature %v", what, sig)
		}
		if c.ECDSAVerify(Q, digest2, sig.R, sig.S) {
			t.Fatalf("%s: reference ECDSA verifier accepts the signature for another message", what)
		}
	}
}

// ---------------------------------------------------------------------------------------------
// Lindell17 (two-party ECDSA)
// ---------------------------------------------------------------------------------------------

func TestLindell17(t *testing.T) {
	const test = "Lindell17"
	signers := proto.ECDSASigners()
	vlib.Check(t, 40, func(t *rapid.T) {
		sg := rapid.SampledFrom(signers).Draw(t, "suite")
		g := proto.GroupByName(sg.Curve())
		maxN := 4
		p, ids, regime := drawPolicyAndIDs(t, g, maxN)
		// exactly-two-party qualified quorums
		var pairs [][2]int
		for a := 0; a < p.N; a++ {
			for b := 0; b < p.N; b++ {
				if a != b && p.Qualified(policy.MaskOf(a, b)) {
					pairs = append(pairs, [2]int{a, b})
				}
			}
		}
		if len(pairs) == 0 {
			vlib.Case(test, "no-2-party-quorum|"+p.Family, false, "skipped=no-2-party-quorum")
			return
		}
		pr := rapid.SampledFrom(pairs).Draw(t, "pair") // ordered: (primary, secondary)
		keySeed := rapid.Uint64Range(0, 2).Draw(t, "keySeed")
		key := fmt.Sprintf("l17|%s|%s|%v|%d", sg.Curve(), p, ids, keySeed)
		keyMu.Lock()
		km, ok := keyCache[key]
		keyMu.Unlock()
		if !ok {
			ac, err := policy.Build(p, ids)
			if err != nil {
				t.Fatalf("build: %v", err)
			}
			shards, _, err := sg.Lindell17Deal(ac, 1024, vlib.NewPRNG(keySeed, "l17dealer"))
			if err != nil {
				t.Fatalf("lindell17 dealer failed for %s ids=%v: %v", p, ids, err)
			}
			km = &keyMaterial{shards: shards, p: p, ids: ids}
			keyMu.Lock()
			keyCache[key] = km
			keyMu.Unlock()
		}
		holders := proto.ToIDs(ids)
		prim, sec := holders[pr[0]], holders[pr[1]]
		quorum := []proto.ID{prim, sec}
		msg, mcls := drawMessage(t, true)
		comp := rapid.SampledFrom([]compiler.Name{fischlin.Name, randfischlin.Name}).Draw(t, "compiler")
		seed := rapid.Uint64().Draw(t, "seed")
		what := fmt.Sprintf("lindell17 %s %s ids=%v primary=%d secondary=%d msg=%s(%d) comp=%s", sg.Name(), p, ids, prim, sec, mcls, len(msg), comp)
		ctxs, err := proto.Contexts(quorum, seed, "sign")
		if err != nil {
			t.Fatalf("%s: contexts: %v", what, err)
		}
		rp, err := sg.Lindell17Runner(true, ctxs[prim], km.shards[prim], sec, comp, msg, proto.PartyPRNG(seed, "l17", prim))
		if err != nil {
			t.Fatalf("%s: primary refused: %v", what, err)
		}
		rs, err := sg.Lindell17Runner(false, ctxs[sec], km.shards[sec], prim, comp, msg, proto.PartyPRNG(seed, "l17", sec))
		if err != nil {
			t.Fatalf("%s: secondary refused: %v", what, err)
		}
		outs := runSigning(t, what, quorum, map[proto.ID]network.Runner[any]{prim: rp, sec: rs})
		var sigs []*proto.ECDSASig
		for _, id := range quorum {
			if outs[id] == nil {
				continue
			}
			s, err := sg.SigOf(outs[id])
			if err != nil {
				continue // the secondary may legitimately return no signature
			}
			sigs = append(sigs, s)
		}
		if len(sigs) == 0 {
			t.Fatalf("%s: nobody obtained a signature", what)
		}
		for _, s := range sigs[1:] {
			if s.String() != sigs[0].String() {
				t.Fatalf("%s: the two parties hold different signatures: %v vs %v", what, sigs[0], s)
			}
		}
		checkECDSA(t, what, sg, km.shards[prim], msg, sigs[0])
		vlib.Case(test, vlib.Desc(sg.Name(), p.Family, p.String(), regime, pr[0] < pr[1], mcls), true,
			"suite="+sg.Name(), "family="+p.Family, "ids="+regime, "msg="+mcls, "compiler="+string(comp), fmt.Sprintf("outputs=%d", len(sigs)))
		vlib.Sample("lindell17", map[string]any{"suite": sg.Name(), "policy": p.String(), "ids": ids, "primary": prim, "secondary": sec})
	})
}
