package c01

import (
	"fmt"
	"strings"
	"testing"

	"pgregory.net/rapid"

	"verif/harness/vlib"
	"verif/harness/vlib/policy"
	"verif/harness/vlib/proto"
)

// Boldyreva threshold BLS: non-interactive partial signatures, aggregated and verified.
func TestBoldyreva(t *testing.T) {
	const test = "Boldyreva"
	signers := proto.BLSSigners()
	vlib.Check(t, 90, func(t *rapid.T) {
		sg := rapid.SampledFrom(signers).Draw(t, "signer")
		g := proto.GroupByName(sg.GroupName())
		maxN := 5
		if vlib.Thorough() {
			maxN = 7
		}
		p, ids, regime := drawPolicyAndIDs(t, g, maxN)
		method := rapid.SampledFrom(keygenMethods).Draw(t, "keygen")
		// a tail of large quorums (dealt keys): signing code that loops over co-signers, Lagrange /
		// span-programme coefficients and per-peer buffers is only stressed past a handful of parties
		if rapid.IntRange(0, 11).Draw(t, "bigQuorum") == 0 {
			n := rapid.SampledFrom([]int{8, 9, 10, 12, 16}).Draw(t, "bigN")
			p = &policy.Policy{Family: policy.Threshold, N: n, T: rapid.IntRange(2, n).Draw(t, "bigT")}
			regime = rapid.SampledFrom([]string{policy.Ordinal, policy.Sparse, policy.Large}).Draw(t, "bigRegime")
			ids = policy.DrawIDs(t, p, regime)
			method = "dealer"
		}
		km := keygen(t, g, method, p, ids, rapid.Uint64Range(0, 2).Draw(t, "keySeed"))
		qmask, minimal := drawQuorum(t, p)
		quorum := policy.IDList(ids, qmask)
		msg, mcls := drawMessage(t, false) // the scheme documents non-empty messages
		seed := rapid.Uint64().Draw(t, "seed")
		what := fmt.Sprintf("%s %s/%s ids=%v quorum=%v msg=%s(%d)", sg.Name(), method, p, ids, quorum, mcls, len(msg))
		ctxs, err := proto.Contexts(quorum, seed, "bls")
		if err != nil {
			t.Fatalf("%s: contexts: %v", what, err)
		}
		sig, err := sg.Sign(ctxs, km.shards, quorum, msg)
		if err != nil {
			switch {
			case strings.Contains(err.Error(), "LIBRARY-VERIFIER-REJECTS"):
				t.Fatalf("%s: the library's own verifier rejects the threshold signature: %v", what, err)
			case strings.Contains(err.Error(), "LIBRARY-VERIFIER-ACCEPTS-OTHER-MESSAGE"):
				t.Fatalf("%s: the signature also verifies for another message", what)
			case strings.Contains(err.Error(), "PAIRING-EQUATION"):
				t.Fatalf("%s: the signature fails the pairing equation recomputed by the harness: %v", what, err)
			}
			t.Fatalf("%s: honest threshold signing failed: %v", what, err)
		}
		// a second aggregation over the same quorum (fresh contexts) gives the same signature: BLS is deterministic
		ctxs2, _ := proto.Contexts(quorum, seed+1, "bls")
		sig2, err := sg.Sign(ctxs2, km.shards, quorum, msg)
		if err != nil || string(sig2.Bytes) != string(sig.Bytes) {
			t.Fatalf("%s: two aggregations of the same quorum and message differ (err=%v)", what, err)
		}
		// a different qualified quorum yields the same (unique) signature
		q2mask, _ := drawQuorum(t, p)
		if q2mask != qmask {
			quorum2 := policy.IDList(ids, q2mask)
			ctxs3, _ := proto.Contexts(quorum2, seed+2, "bls")
			sig3, err := sg.Sign(ctxs3, km.shards, quorum2, msg)
			if err != nil || string(sig3.Bytes) != string(sig.Bytes) {
				t.Fatalf("%s: quorum %v obtains a different signature than quorum %v (err=%v)", what, quorum2, quorum, err)
			}
			vlib.Class(test, "second-quorum")
		}
		nt := !isFixture(p, regime) || !minimal
		vlib.Case(test, vlib.Desc(sg.Name(), p.Family, p.String(), regime, method, !minimal, mcls), nt,
			"signer="+sg.Name(), "family="+p.Family, "ids="+regime, "keygen="+method, fmt.Sprintf("minimal=%v", minimal), "msg="+mcls)
		vlib.Sample("boldyreva", map[string]any{"signer": sg.Name(), "policy": p.String(), "ids": ids, "quorum": quorum, "keygen": method})
	})
}
